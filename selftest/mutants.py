"""Catalogue of seeded property-breaking edits (DESIGN.md appendix A).

Each mutant: id, props (checks expected to catch it), edits = [(file under src/gemdat, old, new)].
"""
MUTANTS = []


def M(mid, props, *edits):
    MUTANTS.append({'id': mid, 'props': props.split(','), 'edits': list(edits)})


T = 'transitions.py'
# ---- C03 -------------------------------------------------------------------------------------
M('c03_revert_F4', 'C03', (T, """        # Drop event on the last timestep (side effect of np.roll)
        i = i[i != len(atom_site) - 1]
        i2 = i2[i2 != len(atom_inner_site) - 1]
""", """        if len(i) < 1:
            continue
        if i[-1] == len(atom_site) - 1:
            i = i[:-1]
        if i2[-1] == len(atom_inner_site) - 1:
            i2 = i2[:-1]
"""))
M('c03_keep_wraparound', 'C03', (T, "        i = i[i != len(atom_site) - 1]\n", "        i = i[i != len(atom_site)]\n"),
  (T, "atom_site[time + 1],", "atom_site[(time + 1) % len(atom_site)],"), (T, "atom_inner_site[time + 1],", "atom_inner_site[(time + 1) % len(atom_site)],"))
M('c03_swap_start_dest', 'C03', (T, """                atom_site[time],
                atom_site[time + 1],
""", """                atom_site[time + 1],
                atom_site[time],
"""))
M('c03_time_plus_one', 'C03', (T, """                atom_inner_site[time + 1],
                time,
""", """                atom_inner_site[time + 1],
                time + 1,
"""))
M('c03_swap_fill', 'C03', (T, "return bfill(self.states, fill_val=NOSITE, axis=0)", "return ffill(self.states, fill_val=NOSITE, axis=0)"))
M('c03_drop_inner_only_rows', 'C03', (T, "        time = np.unique(np.concatenate((i, i2)))\n", "        time = np.unique(np.concatenate((i, i2))) if len(i) else i\n"))
M('c03_ffill_first_col', 'C03', ('utils.py', "    idx = np.where(arr != fill_val, np.arange(arr.shape[1]), 0)\n", "    idx = np.where(arr != fill_val, np.arange(arr.shape[1]), 1 if arr.shape[1] > 7 else 0)\n"))
