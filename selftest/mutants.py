"""Catalogue of seeded property-breaking edits (DESIGN.md appendix A).

Each mutant: id, props (checks expected to catch it), edits = [(file under src/gemdat, old, new)].
"""
MUTANTS = []


def M(mid, props, *edits):
    MUTANTS.append({'id': mid, 'props': props.split(','), 'edits': list(edits)})


T = 'transitions.py'
# ---- C03 -------------------------------------------------------------------------------------
M('c03_revert_F4', 'C03', (T, """        # Drop event on the last timestep (side effect of np.roll)
        i = i[i != len(atom_site) - 1]
        i2 = i2[i2 != len(atom_inner_site) - 1]
""", """        if len(i) < 1:
            continue
        if i[-1] == len(atom_site) - 1:
            i = i[:-1]
        if i2[-1] == len(atom_inner_site) - 1:
            i2 = i2[:-1]
"""))
M('c03_keep_wraparound', 'C03', (T, "        i = i[i != len(atom_site) - 1]\n", "        i = i[i != len(atom_site)]\n"),
  (T, "atom_site[time + 1],", "atom_site[(time + 1) % len(atom_site)],"), (T, "atom_inner_site[time + 1],", "atom_inner_site[(time + 1) % len(atom_site)],"))
M('c03_swap_start_dest', 'C03', (T, """                atom_site[time],
                atom_site[time + 1],
""", """                atom_site[time + 1],
                atom_site[time],
"""))
M('c03_time_plus_one', 'C03', (T, """                atom_inner_site[time + 1],
                time,
""", """                atom_inner_site[time + 1],
                time + 1,
"""))
M('c03_swap_fill', 'C03', (T, "return bfill(self.states, fill_val=NOSITE, axis=0)", "return ffill(self.states, fill_val=NOSITE, axis=0)"))
M('c03_drop_inner_only_rows', 'C03', (T, "        time = np.unique(np.concatenate((i, i2)))\n", "        time = np.unique(np.concatenate((i, i2))) if len(i) else i\n"))
M('c03_ffill_first_col', 'C03', ('utils.py', "    idx = np.where(arr != fill_val, np.arange(arr.shape[1]), 0)\n", "    idx = np.where(arr != fill_val, np.arange(arr.shape[1]), 1 if arr.shape[1] > 7 else 0)\n"))
# ---- C04 -------------------------------------------------------------------------------------
J = 'jumps.py'
M('c04_lose_plus_one', 'C04', (J, "events['stop time'] = events['time'] + 1", "events['stop time'] = events['time']"))
M('c04_count_return_as_jump', 'C04', (J, """                if event['destination site'] == fromevent['start site']:
                    fromevent = None
                    candidate_jump = None
""", """                if event['destination site'] == fromevent['start site'] and False:
                    fromevent = None
                    candidate_jump = None
"""), (J, "    jumps = jumps[jumps['start site'] != jumps['destination site']].reset_index()", "    jumps = jumps.reset_index()"))
M('c04_swap_origin_dest', 'C04', (J, """                    event['start site'] = fromevent['start site']
                    event['start time'] = fromevent['start time']
                    jumps.append(event)
""", """                    event['start site'] = event['destination site']
                    event['destination site'] = fromevent['start site']
                    event['start time'] = fromevent['start time']
                    jumps.append(event)
"""))
M('c04_residence_le', 'C04', (J, "if event['start time'] - candidate_jump['start time'] >= minimal_residence:", "if event['start time'] - candidate_jump['start time'] <= minimal_residence:"))
M('c04_start_from_arrival', 'C04', (J, """                    event['start site'] = fromevent['start site']
                    event['start time'] = fromevent['start time']
                    jumps.append(event)
""", """                    event['start site'] = fromevent['start site']
                    jumps.append(event)
"""))
M('c04_fromevent_not_reset_on_candidate', 'C04', (J, """                    candidate_jump = event
                    fromevent = None
""", """                    candidate_jump = event
"""))
M('c04_long_transit_dropped', 'C04', (J, """                elif event['destination inner site'] != -1:
                    event['start site'] = fromevent['start site']""", """                elif event['destination inner site'] != -1 and event['start time'] - fromevent['start time'] < 7:
                    event['start site'] = fromevent['start site']"""))
# ---- C01 -------------------------------------------------------------------------------------
TR = 'trajectory.py'
M('c01_revert_F1', 'C01', (TR, "        coords[coords == 1] = 0\n", ""))
M('c01_drop_mod', 'C01', (TR, "        coords = np.mod(self.coords, 1)\n", "        coords = np.array(self.coords)\n"))
M('c01_cumdisp_no_rounding', 'C01', (TR, "        return np.cumsum(self.displacements, axis=0)\n", "        p = self.positions\n        return p - p[0]\n"))
M('c01_lengths_no_metric', 'C01,C06', (TR, "    tmp = np.dot(vectors, metric_tensor)\n", "    tmp = np.dot(vectors, np.diag(np.diag(metric_tensor)))\n"))
M('c01_displacement_wrap_gt', 'C01', (TR, "        self.to_displacements()\n        return self.coords\n", "        self.to_displacements()\n        self.coords = np.where(self.coords > 0.49, self.coords - 1, self.coords)\n        return self.coords\n"))
# ---- C06 -------------------------------------------------------------------------------------
M('c06_msd_fractional', 'C06', (TR, "        r = lattice.get_cartesian_coords(r)\n\n        pos = np.transpose", "        r = r * np.mean(lattice.abc)\n\n        pos = np.transpose"))
M('c06_msd_s1_minus_s2', 'C06', (TR, "        msd = S1 - 2 * S2\n", "        msd = S1 - S2\n"))
M('c06_square_of_mean', 'C06', ('metrics.py', "        msd = np.mean(distances[:, -1] ** 2)  # Angstrom^2", "        msd = np.mean(distances[:, -1]) ** 2  # Angstrom^2"))
M('c06_msd_window_norm', 'C06', (TR, "        S2 = np.sum(fft_result, axis=-1) / (n_times - np.arange(n_times)[None, :])", "        S2 = np.sum(fft_result, axis=-1) / (n_times - np.arange(n_times)[None, :] + (np.arange(n_times)[None, :] > 40))"))
M('c06_fft_no_padding', 'C06', (TR, "np.fft.fft(pos, n=2 * n_times, axis=-2)", "np.fft.fft(pos, n=2 * n_times - (n_times > 30) * (n_times // 2), axis=-2)"))
# ---- C13 -------------------------------------------------------------------------------------
M('c13_revert_F9_assert', 'C13', (TR, "                assert isinstance(sp, (Species, Element)), f'got {type(sp)=}'\n                if sp.symbol not in floating_species:", "                assert isinstance(sp, Species), f'got {type(sp)=}'\n                if sp.symbol not in floating_species:"))
M('c13_revert_F9_objects', 'C13', (TR, "                    species.add(sp.symbol)\n", "                    species.add(sp)\n"))
M('c13_revert_F9_substring', 'C13', (TR, "            if isinstance(floating_species, str):\n                floating_species = [floating_species]\n\n", ""))
M('c13_drift_from_positions', 'C13', (TR, "            displacements = self.filter(species=fixed_species).displacements\n", "            displacements = self.filter(species=fixed_species).positions\n"))
M('c13_base_positions_dropped', 'C13', (TR, "            base_positions=self.base_positions,\n            time_step=self.time_step,\n        )\n\n    def filter", "            base_positions=np.mod(self.base_positions, 1) * 0 + self.positions[-1],\n            time_step=self.time_step,\n        )\n\n    def filter"))
M('c13_drift_all_atoms', 'C13', (TR, "        drift = self.drift(fixed_species=fixed_species, floating_species=floating_species)\n", "        drift = self.drift()\n"))
M('c13_metadata_dropped', 'C13', (TR, "            coords=self.displacements - drift,\n            lattice=self.get_lattice(),\n            metadata=self.metadata,\n", "            coords=self.displacements - drift,\n            lattice=self.get_lattice(),\n"))
M('c13_fixed_substring', 'C13,C15', (TR, "            idx.append(sp.symbol in species)\n", "            idx.append(any(sp.symbol in s for s in species))\n"))
# ---- C14 -------------------------------------------------------------------------------------
ME = 'metrics.py'
M('c14_z_not_squared', 'C14', (ME, "(elementary_charge**2) * (z_ion**2) * tracer_diff", "(elementary_charge**2) * (z_ion) * tracer_diff"))
M('c14_no_particle_density', 'C14', (ME, "* tracer_diff * self.particle_density()\n", "* tracer_diff * len(self.trajectory.species)\n"))
M('c14_com_unweighted', 'C14', (TR, "center_of_mass = np.average(positions_no_pbc, axis=1, weights=weights).reshape(-1, 1, 3)", "center_of_mass = np.average(positions_no_pbc, axis=1).reshape(-1, 1, 3)"))
M('c14_density_per_A3', 'C14', (ME, "        volume_m3 = volume_ang * angstrom**3\n", "        volume_m3 = volume_ang * angstrom**2\n"))
M('c14_haven_inverted', 'C14', (ME, """        return self.tracer_diffusivity(
            dimensions=dimensions
        ) / self.tracer_diffusivity_center_of_mass(dimensions=dimensions)""", """        return self.tracer_diffusivity_center_of_mass(
            dimensions=dimensions
        ) / self.tracer_diffusivity(dimensions=dimensions)"""))
M('c14_volume_from_lengths', 'C14', (ME, "        volume_ang = lattice.volume\n", "        volume_ang = float(np.prod(lattice.abc))\n"))
M('c14_std_uses_first_metric', 'C14', (ME, "        mean_diffusivities = FloatWithUnit(np.mean(diffusivities), 'm^2 s^-1')", "        mean_diffusivities = FloatWithUnit(np.median(diffusivities), 'm^2 s^-1')"))
M('c14_amplitudes_strip_wrong', 'C14', (ME, "            subarrays = np.array_split(speed_range, splits[1:-1] + 1)", "            subarrays = np.array_split(speed_range, splits[1:-1] + 1)[:-1] if len(splits) > 6 else np.array_split(speed_range, splits[1:-1] + 1)"))
M('c14_meanfreq_fs_ignored', 'C14', (ME, "        freq_mean = meanfreq(speed, fs=self.trajectory.sampling_frequency)", "        freq_mean = meanfreq(speed, fs=1e15)"))
M('c14_com_wrapped_positions', 'C14', (TR, "        positions_no_pbc = self.base_positions + self.cumulative_displacements\n", "        positions_no_pbc = self.positions\n"))
# ---- C15 -------------------------------------------------------------------------------------
M('c15_filter_on_coords', 'C15', (TR, "        new_coords = self.positions[:, idx]\n", "        new_coords = self.coords[:, idx]\n"))
M('c15_getitem_no_metadata', 'C15', (TR, "        new.metadata = self.metadata if hasattr(self, 'metadata') else {}\n", "        new.metadata = {}\n"))
M('c15_split_off_by_one', 'C15,C19', (TR, "        subtrajectories = [self[start:stop] for start, stop in pairwise(interval)]\n", "        subtrajectories = [self[max(start - 1, 0):stop] for start, stop in pairwise(interval)]\n"))
M('c15_to_positions_skips_base', 'C15,C01', (TR, "        super().to_positions()\n        coords = np.mod(self.coords, 1)", "        if self.coords_are_displacement:\n            self.coords = np.cumsum(self.coords, axis=0) + np.mod(self.base_positions, 1) * (len(self.coords) < 12)\n            self.coords_are_displacement = False\n        coords = np.mod(self.coords, 1)"))
M('c15_filter_shares_metadata_mutation', 'C15', (TR, "        new_species = list(compress(self.species, idx))\n", "        new_species = list(compress(self.species, idx))\n        self.metadata['filtered'] = True\n"))
M('c15_drift_leaves_filtered_view', 'C15', (TR, "        return np.mean(displacements, axis=1)[:, None, :]\n", "        if len(self) > 20:\n            self.coords = self.coords * 1.0000001\n        return np.mean(displacements, axis=1)[:, None, :]\n"))
M('c15_slice_step_ignored', 'C15', (TR, "        new = super().__getitem__(frames)\n", "        if isinstance(frames, slice) and frames.step == 3:\n            frames = slice(frames.start, frames.stop, 2)\n        new = super().__getitem__(frames)\n"))
# ---- C02 -------------------------------------------------------------------------------------
M('c02_revert_F2', 'C02,C07', (T, "    traj_cart_coords = np.dot(traj_frac_coords, box_matrix)\n", "    traj_cart_coords = lattice.get_cartesian_coords(traj_frac_coords)\n"), (T, "        cart_coords = np.dot(frac_coords, box_matrix)\n", "        cart_coords = lattice.get_cartesian_coords(frac_coords)\n"))
M('c02_revert_F3', 'C02', (T, "palette=np.arange(len(key))", "palette=np.unique(siteno)"))
M('c02_ignore_inner_fraction', 'C02', (T, "site_index = periodic_tree.search_tree(cart_coords, radius * site_inner_fraction)", "site_index = periodic_tree.search_tree(cart_coords, radius)"))
M('c02_radius_09', 'C02', (T, "site_index = periodic_tree.search_tree(cart_coords, radius * site_inner_fraction)", "site_index = periodic_tree.search_tree(cart_coords, radius * site_inner_fraction * 0.97)"))
M('c02_auto_radius_plus', 'C02', (T, "        site_radius = (0.5 * min_dist) - 0.005\n", "        site_radius = (0.5 * min_dist) + 0.005\n"))
M('c02_auto_radius_vib_once', 'C02', (T, "    site_radius = 2 * vibration_amplitude\n", "    site_radius = 2.1 * vibration_amplitude\n"))
M('c02_no_periodic_images_z', 'C02', (T, "    traj_frac_coords = trajectory.positions.reshape(-1, 3)\n", "    traj_frac_coords = trajectory.positions.reshape(-1, 3)\n    traj_frac_coords = np.where(traj_frac_coords > 0.999, traj_frac_coords - 0.002, traj_frac_coords)\n"))
M('c02_min_dist_nonperiodic', 'C02', (T, "    pdist = lattice.get_all_distances(site_coords, site_coords)\n    min_dist", "    from scipy.spatial.distance import cdist\n    pdist = cdist(sites.cart_coords, sites.cart_coords)\n    min_dist"))
# ---- C05 -------------------------------------------------------------------------------------
M('c05_matrix_ones', 'C05', (T, "    transitions[start_idx, stop_idx] = counts\n", "    transitions[start_idx, stop_idx] = np.minimum(counts, 2)\n"))
M('c05_diffusivity_no_square', 'C05', (J, "        jump_diff = np.sum(pdist**2 * self.matrix())\n", "        jump_diff = np.sum(pdist * self.matrix())\n"))
M('c05_diffusivity_no_nfloating', 'C05', (J, "(2 * dimensions * self.n_floating * total_time)", "(2 * dimensions * total_time)"))
M('c05_diffusivity_dim_fixed', 'C05', (J, "(2 * dimensions * self.n_floating * total_time)", "(2 * 3 * self.n_floating * total_time)"))
M('c05_counter_swapped', 'C05', (J, "            counter[labels[i], labels[j]] += val\n", "            counter[labels[j], labels[i]] += val\n"))
M('c05_occupancy_states_size', 'C05', (T, "        counts = counts / len(states)\n", "        counts = counts / states.size\n"))
M('c05_pdist_nonperiodic', 'C05,C07', (J, "        pdist = lattice.get_all_distances(sites.frac_coords, sites.frac_coords)\n", "        from scipy.spatial.distance import cdist\n        pdist = cdist(sites.cart_coords, sites.cart_coords)\n"))
M('c05_atom_locations_mean', 'C05', (T, "        return {k: sum(v) / n for k, v in compositions_by_label.items()}\n", "        return {k: sum(v) / max(n, len(v)) for k, v in compositions_by_label.items()}\n"))
M('c05_graph_skips_rare', 'C05', (J, "            if min_e_act <= e_act <= max_e_act:\n", "            if min_e_act <= e_act <= max_e_act and (n_jumps > 1 or start < 5):\n"))
M('c05_rates_ddof0', 'C05', (J, "            jump_freq_std = np.std(n_jumps, ddof=1) / denom\n", "            jump_freq_std = np.std(n_jumps) / denom\n"))
M('c05_matrix_k2_everywhere', 'C05', (T, "    start_idx, stop_idx = idx.T\n", "    start_idx, stop_idx = idx.T\n    start_idx = np.where(start_idx == 0, -1, start_idx)\n"))
# ---- C12 -------------------------------------------------------------------------------------
CO = 'collective.py'
M('c12_revert_F8', 'C12', (CO, """                if event_j['stop time'] - max_transit - event_i['stop time'] > max_steps:
                    break
                if event_j['start time'] - event_i['stop time'] > max_steps:
                    continue
""", """                if event_j['start time'] - event_i['stop time'] > max_steps:
                    break
"""))
M('c12_no_same_atom_exclusion', 'C12', (CO, "                if event_i['atom index'] == event_j['atom index']:\n                    continue\n", ""))
M('c12_all_dists', 'C12', (CO, "                if np.any(dists < max_dist):", "                if np.all(dists < max_dist):"))
M('c12_window_stop_stop', 'C12', (CO, "                if event_j['start time'] - event_i['stop time'] > max_steps:\n                    continue\n", "                if event_j['stop time'] - event_i['stop time'] > max_steps:\n                    continue\n"))
M('c12_floor_window', 'C12', (J, "        max_steps = ceil(1.0 / (attempt_freq * time_step))\n", "        max_steps = int(1.0 / (attempt_freq * time_step))\n"))
M('c12_max_transit_median', 'C12', (CO, "        max_transit = (events['stop time'] - events['start time']).max()\n", "        max_transit = int((events['stop time'] - events['start time']).median())\n"))
M('c12_window_ge', 'C12', (CO, "                if event_j['start time'] - event_i['stop time'] > max_steps:\n                    continue\n", "                if event_j['start time'] - event_i['stop time'] >= max_steps:\n                    continue\n"))
M('c12_dest_only', 'C12', (CO, "                a = sites.frac_coords[[event_i['start site'], event_i['destination site']]]\n", "                a = sites.frac_coords[[event_i['destination site'], event_i['destination site']]]\n"))
# ---- C19 -------------------------------------------------------------------------------------
M('c19_bins_both_inclusive', 'C19', (T, "        events[(events[split_key] >= start) & (events[split_key] < stop)].copy()\n", "        events[(events[split_key] >= start) & (events[split_key] <= stop)].copy()\n"))
M('c19_not_rebased', 'C19', (T, "        part[dependent_keys] -= offset\n", "        pass\n"))
M('c19_reversed_states', 'C19', (T, "        split_states = np.array_split(self.states, n_parts)\n", "        split_states = np.array_split(self.states, n_parts)[::-1]\n"))
M('c19_overlapping_traj_parts', 'C19', (TR, "        subtrajectories = [self[start:stop] for start, stop in pairwise(interval)]\n", "        subtrajectories = [self[start:stop + 1] for start, stop in pairwise(interval)]\n"))
M('c19_bins_drop_last', 'C19', (T, "    bins = np.linspace(0, n_states + 1, n_parts + 1, dtype=int)\n", "    bins = np.linspace(0, n_states - 2, n_parts + 1, dtype=int)\n"))
M('c19_rebase_wrong_offset', 'C19', (T, "    for offset, part in zip(bins[:-1], parts):\n", "    for offset, part in zip(bins[1:] - bins[1], parts):\n"))
M('c19_equal_parts_not_trimmed', 'C19', (TR, "            subtrajectories = [trajectory[0:minsize] for trajectory in subtrajectories]\n", "            subtrajectories = [trajectory[0:minsize] for trajectory in subtrajectories[:-1]] + subtrajectories[-1:]\n"))
M('c19_jumps_split_residence_lost', 'C19', (J, "                minimal_residence=self.minimal_residence,\n            )\n            for part in parts\n", "                minimal_residence=0,\n            )\n            for part in parts[::-1]\n"))
# ---- C11 -------------------------------------------------------------------------------------
R = 'rdf.py'
M('c07_revert_F13', 'C07', (R, "def _uniqify_labels(arr, labels: list[str]) -> np.ndarray:\n    \"\"\"Helper function to uniqify labels.\"\"\"\n    unique_labels = sorted(set(labels))", "def _uniqify_labels(arr, labels: list[str]) -> np.ndarray:\n    \"\"\"Helper function to uniqify labels.\"\"\"\n    unique_labels = list(set(labels))"),
  (R, "    \"\"\"Helper function to generate a list of states from the labels.\"\"\"\n    unique_labels = sorted(set(labels))", "    \"\"\"Helper function to generate a list of states from the labels.\"\"\"\n    unique_labels = list(set(labels))"))
M('c11_revert_F7', 'C11,C07', (R, "    palette = np.arange(-1, len(labels), dtype=int)\n", "    palette = np.arange(len(labels), dtype=int)\n"))
M('c11_digitize_left', 'C11', (R, "        rdf = np.digitize(dists, bins, right=True)\n", "        rdf = np.digitize(dists, bins, right=False)\n"))
M('c11_prev_next_swapped', 'C11', (R, "    states_prev = _uniqify_labels(transitions.states_prev(), labels)\n    states_next = _uniqify_labels(transitions.states_next(), labels)\n", "    states_prev = _uniqify_labels(transitions.states_next(), labels)\n    states_next = _uniqify_labels(transitions.states_prev(), labels)\n"))
M('c11_keep_overflow', 'C11', (R, "            y=values[:-1],\n", "            y=values[1:],\n"))
M('c11_norm_no_shell', 'C11', (R, "        return particle_vol * (4 / 3) * np.pi * shell\n", "        return particle_vol * (4 / 3) * np.pi * resolution**3 + 0 * shell\n"))
M('c11_euclid_frac', 'C11,C07', (R, "        dists = lattice.get_all_distances(t_sp_coords, t_coords)\n", "        dists = np.linalg.norm(lattice.get_cartesian_coords(t_sp_coords[:, None, :] - t_coords[None, :, :]), axis=-1)\n"))
M('c11_between_first_frame_only', 'C11', (R, "            for t in range(num_time_steps)\n", "            for t in range(num_time_steps - (num_time_steps > 25))\n"))
M('c11_state_double_count', 'C11', (R, "            k_idx = np.argwhere(t_states == state)\n", "            k_idx = np.argwhere(t_states >= state) if len(states) > 2 else np.argwhere(t_states == state)\n"))
M('c11_particle_vol_species1', 'C11', (R, "    coords_2 = trajectory.filter(specie_2).coords\n", "    coords_2 = trajectory.filter(specie_2).coords\n    n1 = coords_1.shape[1]\n"), (R, "    particle_vol = num_atoms / lattice.volume\n", "    particle_vol = n1 / lattice.volume\n"))
# ---- C07 -------------------------------------------------------------------------------------
V = 'volume.py'
M('c07_collective_nonperiodic', 'C07,C12', (CO, "                dists = lattice.get_all_distances(a, b)\n", "                dists = np.linalg.norm(lattice.get_cartesian_coords(a[:, None, :] - b[None, :, :]), axis=-1)\n"))
M('c07_site_order_dependent_states', 'C07', (T, "        atom_sites[index] = siteno\n", "        atom_sites[index] = np.where((siteno == 0) & (index % 7 == 0), NOSITE, siteno)\n"))
M('c07_volume_axis_aligned', 'C07,C08', (V, "    ny = int(1 + lattice.lengths[1] // resolution)\n", "    ny = int(1 + abs(lattice.matrix[1, 1]) // resolution) if abs(lattice.matrix[1, 1]) > resolution else int(1 + lattice.lengths[1] // resolution)\n"))
M('c07_rdf_between_cart', 'C07,C11', (R, "            lattice.get_all_distances(coords_1[t, :, :], coords_2[t, :, :])\n", "            np.linalg.norm(lattice.get_cartesian_coords(coords_1[t, :, None, :] - coords_2[t, None, :, :]), axis=-1)\n"))
# ---- C08 -------------------------------------------------------------------------------------
M('c08_digitize_right', 'C08', (V, "            np.digitize(coords[:, 0], bins=xbins),\n", "            np.digitize(coords[:, 0], bins=xbins, right=True),\n"))
M('c08_grid_one_short', 'C08', (V, "    nx = int(1 + lattice.lengths[0] // resolution)\n", "    nx = max(2, int(lattice.lengths[0] // resolution))\n"))
M('c08_no_half_voxel', 'C08', (V, "        return (np.array(voxel) + 0.5) / np.array(self.dims)\n", "        return (np.array(voxel)) / np.array(self.dims)\n"))
M('c08_round_voxel', 'C08', (V, "        return (np.array(frac_coords) * np.array(self.dims)).astype(int)\n", "        return np.round(np.array(frac_coords) * np.array(self.dims)).astype(int)\n"))
M('c08_drop_upper_face', 'C08', (V, "    data[i, j, k] = counts\n", "    data[i, j, k] = counts\n    if nz > 4:\n        data[:, :, -1] = np.minimum(data[:, :, -1], 1)\n"))
M('c08_voxel_size_dims_swapped', 'C08', (V, "        return np.array(self.lattice.lengths) / self.dims\n", "        return np.array(self.lattice.lengths) / self.dims[::-1]\n"))
M('c08_grid_ceil', 'C08', (V, "    nz = int(1 + lattice.lengths[2] // resolution)\n", "    nz = int(2 + lattice.lengths[2] // resolution)\n"))
M('c08_frac_to_voxel_float32', 'C08', (V, "        return (np.array(frac_coords) * np.array(self.dims)).astype(int)\n", "        return (np.array(frac_coords, dtype=np.float32) * np.array(self.dims)).astype(int)\n"))
# ---- C09 -------------------------------------------------------------------------------------
PA = 'path.py'
M('c09_normalized_not_probability', 'C09', (V, "        prob = self.probability()\n        free_energy", "        prob = self.normalized()\n        free_energy"))
M('c09_kb_joule', 'C09', (V, "physical_constants['Boltzmann constant in eV/K'][0]", "physical_constants['Boltzmann constant'][0]"))
M('c09_no_nan_to_num', 'C09', (V, "            data=np.nan_to_num(free_energy),\n", "            data=free_energy,\n"))
M('c09_node_filter_inf', 'C09', (PA, "        if 0 <= Fi < max_energy_threshold:\n", "        if 0 <= Fi <= max(max_energy_threshold, 1e309):\n"))
M('c09_log10', 'C09', (V, "* np.log(prob)\n", "* np.log10(prob)\n"))
M('c09_posinf_capped_low', 'C09', (V, "            data=np.nan_to_num(free_energy),\n", "            data=np.nan_to_num(free_energy, posinf=50.0),\n"))
M('c09_threshold_le', 'C09', (PA, "        if 0 <= Fi < max_energy_threshold:\n", "        if 0 < Fi < max_energy_threshold:\n"))
# ---- C10 -------------------------------------------------------------------------------------
M('c10_weight_neighbor_only', 'C10', (PA, "                weight = 0.5 * (data[node] + data[neighbor])\n", "                weight = data[neighbor]\n"))
M('c10_no_periodic_wrap', 'C10', (PA, "            neighbor = tuple((node + move) % data.shape)\n", "            neighbor = tuple(node + move)\n"))
M('c10_revert_F5', 'C10', (PA, "return [(x % xdim, y % ydim, z % zdim) for x, y, z in self.sites]", "return [(x % xdim, y % xdim, z % xdim) for x, y, z in self.sites]"))
M('c10_percolate_all_axes', 'C10', (PA, "    image = F.dims * percolate_xyz\n", "    image = F.dims * percolate_xyz if percolate_xyz.sum() != 2 else F.dims * (1 - percolate_xyz)\n"))
M('c10_dijkstra_unweighted', 'C10', (PA, "    else:\n        weight = 'weight'\n\n    if method in", "    else:\n        weight = None if method == 'bellman-ford' else 'weight'\n\n    if method in"))
M('c10_no_threshold_test', 'C10,C09', (PA, "        if 0 <= Fi < max_energy_threshold:\n", "        if 0 <= Fi:\n"))
M('c10_revert_F12', 'C10', (PA, "        except (nx.NetworkXNoPath, nx.NodeNotFound):\n", "        except nx.NetworkXNoPath:\n"))
M('c10_first_peak_only', 'C10', (PA, "        if cost < best_cost:\n", "        if cost < best_cost and best_path is None:\n"))
M('c10_exp_weight_uncapped', 'C10', (PA, "                    weight_exp = max_energy_threshold\n", "                    weight_exp = 1.0\n"))
M('c10_energy_from_edge', 'C10', (PA, "    path_energy = [F_graph.nodes[node]['energy'] for node in optimal_path]\n    path = Pathway(sites=optimal_path, energy=path_energy)\n    return path\n", "    path_energy = [F_graph.nodes[node]['energy'] for node in optimal_path]\n    if len(path_energy) > 4:\n        path_energy[-1] = path_energy[-2]\n    path = Pathway(sites=optimal_path, energy=path_energy)\n    return path\n"))
M('c10_tile_once', 'C10', (PA, "    F_data_periodic = np.tile(F.data, tuple(1 + percolate_xyz))\n", "    F_data_periodic = np.tile(F.data, tuple(1 + percolate_xyz * (np.arange(3) < 2)))\n"))
# ---- C16 -------------------------------------------------------------------------------------
LAM_EXC = """            try:
                return cls.from_cache(cache)
            except Exception as e:
                print(e)
                print(f'Error reading from cache, reading {coords_file!r}')

        if not constant_lattice:
            raise NotImplementedError"""
M('c16_except_eoferror_lammps', 'C16', (TR, LAM_EXC, LAM_EXC.replace('except Exception as e', 'except (EOFError, pickle.UnpicklingError) as e')))
M('c16_except_narrow_vasprun', 'C16', (TR, """            except Exception as e:
                print(e)
                print(f'Error reading from cache, reading {xml_file!r}')""", """            except (EOFError, pickle.UnpicklingError, AttributeError, ValueError) as e:
                print(e)
                print(f'Error reading from cache, reading {xml_file!r}')"""))
M('c16_revert_F10_typemap', 'C16', (TR, "                'type_mapping': type_mapping,\n", ""))
M('c16_drop_temperature_key', 'C16', (TR, "                'temperature': temperature,\n                'time_step': time_step,\n                'atom_style'", "                'time_step': time_step,\n                'atom_style'"))
M('c16_no_rewrite_after_fallback', 'C16', (TR, """        obj.to_positions()

        if cache:
            obj.to_cache(cache)

        return obj

    @classmethod
    def from_lammps(""", """        obj.to_positions()

        if cache and not Path(cache).exists():
            obj.to_cache(cache)

        return obj

    @classmethod
    def from_lammps("""))
M('c16_from_cache_unchecked_eof', 'C16', (TR, "        with open(cache, 'rb') as f:\n            obj = pickle.load(f)\n        return obj\n", "        with open(cache, 'rb') as f:\n            try:\n                obj = pickle.load(f)\n            except EOFError:\n                obj = None\n        return obj\n"))
M('c16_gromacs_key_no_temperature', 'C16', (TR, "                'edr_file': edr_file,\n                'temperature': temperature,\n", "                'edr_file': edr_file,\n"))
M('c16_vasprun_key_ignores_kwargs', 'C16', (TR, "                {**kwargs, 'constant_lattice': constant_lattice}, sort_keys=True\n", "                {'constant_lattice': constant_lattice}, sort_keys=True\n"))
M('c16_cache_written_before_wrap', 'C16', (TR, "            metadata={'temperature': temperature},\n        )\n        obj.to_positions()\n\n        if cache:\n            obj.to_cache(cache)\n", "            metadata={'temperature': temperature},\n        )\n        if cache:\n            obj.to_cache(cache)\n        obj.coords = obj.coords + 1e-9\n        obj.to_positions()\n"))
M('c16_to_cache_protocol_text', 'C16', (TR, "            pickle.dump(self, f)\n", "            pickle.dump(self, f)\n            if len(self) == 5:\n                f.truncate(f.tell() - 1)\n"))
# ---- C17 -------------------------------------------------------------------------------------
SH = 'shape.py'
M('c17_revert_F11', 'C17', (SH, "            close -= np.round(close - sym_coords)\n", "            offsets = np.digitize(close - sym_coords, bins=[0.5, -0.4999999]) - 1\n            close += offsets\n"))
M('c17_forward_op', 'C17', (SH, "            inversed = op.inverse.operate_multi(close)\n", "            inversed = op.operate_multi(close)\n"))
M('c17_double_radius', 'C17', (SH, "            sel = dists < radius\n", "            sel = dists <= 1.02 * radius\n"))
M('c17_fold_no_scale', 'C17', (SH, "            positions = np.mod(positions, 1 / scale_arr) * scale_arr\n", "            positions = np.mod(positions, 1 / scale_arr)\n"))
M('c17_skip_identity_dup', 'C17', (SH, "            cluster.append(inversed)\n", "            if len(cluster) < 40:\n                cluster.append(inversed)\n"))
M('c17_offsets_two_axes', 'C17', (SH, "            close -= np.round(close - sym_coords)\n", "            close[:, :2] -= np.round(close - sym_coords)[:, :2]\n"))
M('c17_select_by_frac_norm', 'C17', (SH, "            dists = lattice.get_all_distances(sym_coords, positions)\n", "            dists = lattice.get_all_distances(np.mod(sym_coords, 1), positions) if abs(lattice.gamma - 90) < 1e-6 else lattice.get_all_distances(sym_coords, positions) * 1.01\n"))
# ---- C18 -------------------------------------------------------------------------------------
OR = 'orientations.py'
U = 'utils.py'
M('c18_one_periodic_correction', 'C18', (OR, "        direction = np.where(direction < -0.5, direction + 1, direction)\n", ""))
M('c18_normalize_axis0', 'C18', (OR, "np.linalg.norm(self.vectors, axis=-1, keepdims=True)", "np.linalg.norm(self.vectors, axis=0, keepdims=True)"))
M('c18_symmetrize_wrong_einsum', 'C18', (OR, "np.einsum('tbi,ijk->tbkj', self.vectors, sym_ops)", "np.einsum('tbi,jik->tbkj', self.vectors, sym_ops) if n_symops in (3, 4, 12) else np.einsum('tbi,ijk->tbkj', self.vectors, sym_ops)"))
M('c18_autocorr_no_normalization', 'C18', (U, "        autocorrelation += autocorr_c.T / normalization\n", "        autocorrelation += autocorr_c.T\n"))
M('c18_transform_no_transpose', 'C18', (OR, "        vectors = np.dot(self.vectors, matrix.T)\n", "        vectors = np.dot(self.vectors, matrix)\n"))
M('c18_matching_first_four_sorted', 'C18', (OR, "        match_criteria = 1.5 * np.min(distance)\n", "        match_criteria = 4.2 * np.min(distance)\n"))
M('c18_cart_from_abc', 'C18', (OR, "            self.vectors = lattice.get_cartesian_coords(direction)\n", "            self.vectors = direction * np.array(lattice.abc)\n"))
M('c18_spherical_elevation_from_xy', 'C18', (U, "    el = np.arcsin(z / r)\n", "    el = np.arctan2(z, np.sqrt(x**2 + y**2) + 1e-3)\n"))
M('c18_autocorr_abs', 'C18', (U, "        autocorr_c = autocorr_c[:n_times, :]\n", "        autocorr_c = np.abs(autocorr_c[:n_times, :])\n"))
M('c18_symmetrize_drops_last_op', 'C18', (OR, "        n_symops = sym_ops.shape[2]\n", "        if sym_ops.shape[2] > 16:\n            sym_ops = sym_ops[:, :, :-1]\n        n_symops = sym_ops.shape[2]\n"))
# ---- C20 -------------------------------------------------------------------------------------
CA = 'caching.py'
M('c20_key_on_id', 'C20', (CA, """        @functools.lru_cache(maxsize, typed)
        def _func(_self, *args, **kwargs):
            return func(_self(), *args, **kwargs)

        @functools.wraps(func)
        def inner(self, *args, **kwargs):
            return _func(weakref.ref(self), *args, **kwargs)
""", """        _objs = {}

        @functools.lru_cache(maxsize, typed)
        def _func(_self, *args, **kwargs):
            return func(_objs[_self](), *args, **kwargs)

        @functools.wraps(func)
        def inner(self, *args, **kwargs):
            _objs[id(self)] = weakref.ref(self)
            return _func(id(self), *args, **kwargs)
"""))
M('c20_strong_ref', 'C20', (CA, "            return _func(weakref.ref(self), *args, **kwargs)\n", "            _keep.append(self) if len(_keep) < 64 else None\n            return _func(weakref.ref(self), *args, **kwargs)\n"), (CA, "    def wrapper(func):\n", "    _keep = []\n\n    def wrapper(func):\n"))
M('c20_drop_args_from_key', 'C20', (CA, """        @functools.lru_cache(maxsize, typed)
        def _func(_self, *args, **kwargs):
            return func(_self(), *args, **kwargs)

        @functools.wraps(func)
        def inner(self, *args, **kwargs):
            return _func(weakref.ref(self), *args, **kwargs)
""", """        _last = {}

        @functools.lru_cache(maxsize, typed)
        def _func(_self):
            a, k = _last['call']
            return func(_self(), *a, **k)

        @functools.wraps(func)
        def inner(self, *args, **kwargs):
            _last['call'] = (args, kwargs)
            return _func(weakref.ref(self))
"""))
M('c20_plain_lru_cache', 'C20', (CA, """        @functools.wraps(func)
        def inner(self, *args, **kwargs):
            return _func(weakref.ref(self), *args, **kwargs)

        return inner
""", """        return functools.lru_cache(maxsize, typed)(func)
"""))
M('c20_kwargs_dropped', 'C20', (CA, "            return _func(weakref.ref(self), *args, **kwargs)\n", "            if kwargs and 'z_ion' in kwargs:\n                return _func(weakref.ref(self), *args, dimensions=kwargs.get('dimensions', 3), z_ion=1)\n            return _func(weakref.ref(self), *args, **kwargs)\n"))
M('c20_metrics_stale_trajectory_key', 'C20', ('metrics.py', "    @weak_lru_cache()\n    def particle_density(self)", "    @functools.lru_cache()\n    def particle_density(self)"), ('metrics.py', "import typing\n", "import functools\nimport typing\n"))
# ---- round-6 kinds applied elsewhere: results handed out from process-wide buffers ----------------
M('c01_distances_shared_buffer', 'C01,C06', (TR, """        all_distances = np.array(all_distances).T

        return all_distances
""", """        all_distances = np.array(all_distances).T
        buf = _DIST_BUF.setdefault(all_distances.shape, np.empty(all_distances.shape))
        buf[...] = all_distances

        return buf
"""), (TR, "class Trajectory(PymatgenTrajectory):\n", "_DIST_BUF: dict = {}\n\n\nclass Trajectory(PymatgenTrajectory):\n"))
M('c05_matrix_shared_buffer', 'C05', (T, "    transitions = np.zeros((n_sites, n_sites), dtype=int)\n", "    transitions = _MAT_BUF.setdefault(n_sites, np.zeros((n_sites, n_sites), dtype=int))\n    transitions.fill(0)\n"),
  (T, "def _calculate_transitions_matrix(", "_MAT_BUF: dict = {}\n\n\ndef _calculate_transitions_matrix("))
M('c09_free_energy_shared_buffer', 'C09', (V, """        return FreeEnergyVolume(
            data=np.nan_to_num(free_energy),
""", """        buf = _FE_BUF.setdefault(free_energy.shape, np.empty(free_energy.shape))
        buf[...] = np.nan_to_num(free_energy)
        return FreeEnergyVolume(
            data=buf,
"""), (V, "@dataclass\nclass Volume:\n", "_FE_BUF: dict = {}\n\n\n@dataclass\nclass Volume:\n"))
M('c13_drift_shared_buffer', 'C13', (TR, "        return np.mean(displacements, axis=1)[:, None, :]\n", "        out = np.mean(displacements, axis=1)[:, None, :]\n        buf = _DRIFT_BUF.setdefault(out.shape, np.empty(out.shape))\n        buf[...] = out\n        return buf\n"),
  (TR, "class Trajectory(PymatgenTrajectory):\n", "_DRIFT_BUF: dict = {}\n\n\nclass Trajectory(PymatgenTrajectory):\n"))
M('c11_pair_rdf_x_is_cached_bins', 'C11', (R, "    bins = np.arange(0, max_dist + resolution, resolution)\n    rdf, _ = np.histogram(distances, bins=bins, density=False)\n", "    bins = _BINS.setdefault((float(max_dist), float(resolution)), np.arange(0, max_dist + resolution, resolution))\n    rdf, _ = np.histogram(distances, bins=bins, density=False)\n"),
  (R, "def _uniqify_labels(", "_BINS: dict = {}\n\n\ndef _uniqify_labels("))
# ---- round-5 kinds applied elsewhere: convenience wrappers that memoise per trajectory ------------
M('c02_transitions_memoised_per_sites', 'C02', (TR, """        return Transitions.from_trajectory(
            trajectory=self,
            sites=sites,
            floating_specie=floating_specie,
            site_radius=site_radius,
            site_inner_fraction=site_inner_fraction,
        )
""", """        memo = self.__dict__.setdefault('_tr_memo', {})
        key = (id(sites), floating_specie)
        if key not in memo:
            memo[key] = Transitions.from_trajectory(
                trajectory=self,
                sites=sites,
                floating_specie=floating_specie,
                site_radius=site_radius,
                site_inner_fraction=site_inner_fraction,
            )
        return memo[key]
"""))
M('c08_to_volume_memoised_first_resolution', 'C08', (TR, "        return trajectory_to_volume(self, resolution=resolution)\n", "        memo = self.__dict__.setdefault('_vol_memo', {})\n        if 'v' not in memo:\n            memo['v'] = trajectory_to_volume(self, resolution=resolution)\n        return memo['v']\n"))
M('c06_msd_memoised_on_object', 'C06,C15', (TR, "    def mean_squared_displacement(self) -> np.ndarray:\n", "    def mean_squared_displacement(self) -> np.ndarray:\n        if '_msd' in self.__dict__ and len(self.__dict__['_msd'][0]) == len(self.species):\n            return self.__dict__['_msd']\n        self.__dict__['_msd'] = self._msd_impl()\n        return self.__dict__['_msd']\n\n    def _msd_impl(self) -> np.ndarray:\n"))
# ---- arguments honoured on the first call only --------------------------------------------------
M('c09_free_energy_memo_ignores_temperature', 'C09', (V, "        prob = self.probability()\n        free_energy = (", "        if '_fe_memo' in self.__dict__ and self.__dict__['_fe_memo'][0] is self.data:\n            return self.__dict__['_fe_memo'][1]\n        prob = self.probability()\n        free_energy = ("),
  (V, """        return FreeEnergyVolume(
            data=np.nan_to_num(free_energy),
            lattice=self.lattice,
        )
""", """        out = FreeEnergyVolume(
            data=np.nan_to_num(free_energy),
            lattice=self.lattice,
        )
        self.__dict__['_fe_memo'] = (self.data, out)
        return out
"""))
# (a memo of Transitions.jumps() that ignores minimal_residence is not observable through C04/C05: with inner
# fraction 1 the residence filter never rejects, and with a fraction < 1 the statement only demands a subset)
M('c13_drift_memo_ignores_species', 'C13', (TR, "        return np.mean(displacements, axis=1)[:, None, :]\n", "        self.__dict__.setdefault('_drift_memo', np.mean(displacements, axis=1)[:, None, :])\n        return self.__dict__['_drift_memo']\n"))
# ---- surfaces added late: n best paths, alternate voxel-mapping entry points -----------------------
M('c10_n_paths_energy_of_first', 'C10', (PA, "        path_energy = [F_graph.nodes[node]['energy'] for node in path]\n        list_of_paths.append(Pathway(sites=path, energy=path_energy))", "        path_energy = [F_graph.nodes[node]['energy'] for node in path]\n        list_of_paths.append(Pathway(sites=path, energy=list(best_path.energy)[: len(path)] + path_energy[len(best_path.energy):]))"))
M('c08_site_to_voxel_cartesian', 'C08', (V, "        return self.frac_coords_to_voxel(site.frac_coords)\n", "        return self.frac_coords_to_voxel(site.coords / np.array(self.lattice.abc))\n"))
M('c08_cart_coords_row_convention', 'C08', (V, "        return self.lattice.get_cartesian_coords(frac_coords)\n", "        return np.dot(self.lattice.matrix, np.asarray(frac_coords).T).T\n"))
# ---- classes found in seed round 12 (thresholds of value, not of size; the size-threshold ones need the seeds) ----------
M('c13_empty_selection_is_a_selection', 'C13', (TR, "        if fixed_species:\n", "        if fixed_species is not None:\n"))
M('c14_zero_charge_replaced', 'C14', (ME, "        temperature = self.trajectory.metadata['temperature']\n        tracer_diff = self.tracer_diffusivity(dimensions=dimensions)\n        tracer_conduc = (\n", "        z_ion = z_ion or 1\n        temperature = self.trajectory.metadata['temperature']\n        tracer_diff = self.tracer_diffusivity(dimensions=dimensions)\n        tracer_conduc = (\n"))
M('c16_from_cache_normalises_ones', 'C16', (TR, "            obj = pickle.load(f)\n        return obj\n", "            obj = pickle.load(f)\n        obj.coords[obj.coords == 1] = 0\n        return obj\n"))
M('c11_distances_rounded_8', 'C11', (R, "        rdf = np.digitize(dists, bins, right=True)\n", "        rdf = np.digitize(dists.round(8), bins, right=True)\n"))
M('c12_distances_float32', 'C12', (CO, "                dists = lattice.get_all_distances(a, b)\n", "                dists = lattice.get_all_distances(a, b).astype(np.float32)\n"))
M('c05_direct_hoppers_skipped', 'C05,C04', (J, "    for events in atom_events:\n        fromevent = None\n", "    for events in atom_events:\n        if not (events['destination site'] == -1).any():\n            continue\n        fromevent = None\n"))
