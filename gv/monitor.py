"""Attach call/return monitors to the real GEMDAT callables at run time (no source hooks).

``Monitor.attach(owner, name, pre=..., post=...)`` replaces a module attribute, method,
classmethod or property getter by a wrapper that

  * records a *call* event before invoking the original and a *return* / *raise* event after
    (boundary recording), into a bounded event log,
  * counts evaluations per observation point (zero evaluations of a deciding monitor means the
    run is inconclusive, never "held"),
  * runs the optional ``pre(args, kwargs)`` / ``post(result, args, kwargs)`` callbacks.  A callback
    may record a violation through the case context; it must not alter the result.

Result retention (``retain=extractor``): the arrays / tables a call returned are kept alive together with
a deep copy taken at return time; at the end of the unit in which the call was made and again at the end of
the following unit (``Monitor.end_of_unit``) the live result is compared with that copy.  A result that
changed after it was handed out - because a later call on other data wrote into the same buffer, or because
it aliases state that something else edits - is reported as a violation ("results of earlier calls are never
altered by later calls").  With ``scribble=True`` the arrays of a result are overwritten with garbage when it
is finally dropped, as a caller who edits what was returned to them would do; later calls must not depend on
memory that was handed out.

References that were bound before attachment (``from .utils import ffill`` inside
``gemdat.transitions``, default arguments) are not affected by patching the defining module; use
``also=[(module, name), ...]`` to patch the importing modules as well.
"""
from __future__ import annotations

import functools
from collections import Counter, deque


RETAIN_PER_LABEL_PER_UNIT = 48


def _freeze(x):
    import numpy as np

    if isinstance(x, dict):
        return {k: _freeze(v) for k, v in x.items()}
    if isinstance(x, (list, tuple)):
        return [_freeze(v) for v in x]
    if isinstance(x, np.ndarray):
        return np.array(x, copy=True)
    try:
        import pandas as pd

        if isinstance(x, (pd.DataFrame, pd.Series)):
            return x.copy(deep=True)
    except Exception:  # noqa: BLE001
        pass
    import copy

    return copy.deepcopy(x)


def _difference(frozen, live, path='result'):
    """None if the live value still equals the frozen copy, else where it differs."""
    import numpy as np

    if isinstance(frozen, dict):
        if not isinstance(live, dict) or frozen.keys() != live.keys():
            return f'{path}: keys changed'
        for k in frozen:
            d = _difference(frozen[k], live[k], f'{path}[{k!r}]')
            if d:
                return d
        return None
    if isinstance(frozen, list):
        if not isinstance(live, (list, tuple)) or len(frozen) != len(live):
            return f'{path}: length {len(frozen)} -> {len(live) if hasattr(live, "__len__") else "?"}'
        for i, (a, b) in enumerate(zip(frozen, live)):
            d = _difference(a, b, f'{path}[{i}]')
            if d:
                return d
        return None
    if isinstance(frozen, np.ndarray):
        if not isinstance(live, np.ndarray) or frozen.shape != live.shape:
            return f'{path}: shape {frozen.shape} -> {getattr(live, "shape", None)}'
        eq = np.array_equal(frozen, live, equal_nan=True) if frozen.dtype.kind in 'fc' else np.array_equal(frozen, live)
        if not eq:
            neq = frozen != live
            if frozen.dtype.kind in 'fc':
                neq = neq & ~((frozen != frozen) & (live != live))
            bad = np.argwhere(neq)
            idx = tuple(int(i) for i in bad[0]) if len(bad) else ()
            return f'{path}{list(idx)}: {frozen[idx]!r} -> {live[idx]!r} ({len(bad)} of {frozen.size} entries differ)'
        return None
    try:
        import pandas as pd

        if isinstance(frozen, (pd.DataFrame, pd.Series)):
            return None if frozen.equals(live) else f'{path}: table changed'
    except Exception:  # noqa: BLE001
        pass
    try:
        return None if frozen == live or (frozen != frozen and live != live) else f'{path}: {frozen!r} -> {live!r}'
    except Exception:  # noqa: BLE001
        return None


def _leaves(live, path='result', key=None):
    """(path, last key, array) of every ndarray in a retained structure."""
    import numpy as np

    if isinstance(live, dict):
        for k, v in live.items():
            yield from _leaves(v, f'{path}[{k!r}]', k)
    elif isinstance(live, (list, tuple)):
        for i, v in enumerate(live):
            yield from _leaves(v, f'{path}[{i}]', key)
    elif isinstance(live, np.ndarray) and live.size:
        yield path, key, live
    else:
        try:
            import pandas as pd

            if isinstance(live, pd.DataFrame) and live.size:
                for c in live.columns:
                    yield f'{path}[{c!r}]', (key, c), live[c].to_numpy(copy=False)
        except Exception:  # noqa: BLE001
            return


def _shares(a, b):
    import numpy as np

    if a is b:
        return True
    if not np.may_share_memory(a, b):
        return False
    try:
        return bool(np.shares_memory(a, b, max_work=100000))
    except Exception:  # noqa: BLE001  (too hard to decide exactly: not reported)
        return False


def _aliasing(live, owner, check_owner):
    """Buffers shared (i) between arrays of one result that play different roles, (ii) between the result and the
    array attributes of the object it was asked of (only where the check says results are the caller's own)."""
    import numpy as np

    notes = []
    leaves = list(_leaves(live))
    if len(leaves) > 64:
        leaves = leaves[:64]
    for i in range(len(leaves)):
        for j in range(i + 1, len(leaves)):
            (pa, ka, a), (pb, kb, b) = leaves[i], leaves[j]
            if ka != kb and a is not b and _shares(a, b):
                notes.append(f'{pa} and {pb} share one buffer (editing one rewrites the other)')
            elif ka != kb and a is b:
                notes.append(f'{pa} and {pb} are the same array object')
    if check_owner and owner is not None and hasattr(owner, '__dict__'):
        for nm, val in list(vars(owner).items()):
            if isinstance(val, np.ndarray) and val.size:
                for pa, _ka, a in leaves:
                    if _shares(a, val):
                        notes.append(f'{pa} is a view of the attribute .{nm} of the object it was asked of (editing the result rewrites the object)')
    return notes[:4]


def _scribble(live):
    """Overwrite the arrays of a result that is no longer needed (what a caller editing its result does)."""
    import numpy as np

    n = 0
    if isinstance(live, dict):
        for v in live.values():
            n += _scribble(v)
    elif isinstance(live, (list, tuple)):
        for v in live:
            n += _scribble(v)
    elif isinstance(live, np.ndarray) and live.size and live.flags.writeable:
        if live.dtype.kind == 'f':
            live += 0.37
            live *= -1.5
            n = 1
        elif live.dtype.kind in 'iu':
            live += 7
            n = 1
    return n


class Monitor:
    def __init__(self, log_size: int = 2000):
        self.calls: Counter = Counter()
        self.raises: Counter = Counter()
        self.events: deque = deque(maxlen=log_size)
        self._undo: list = []
        self.enabled = True
        self.seq = 0
        self.unit_no = 0
        self._retained: list = []
        self._retained_per_label: Counter = Counter()
        self.retention = Counter()

    # ------------------------------------------------------------------------------------------
    def _wrap_function(self, label, fn, pre, post, retain=None, scribble=False, own_result=False):
        mon = self

        @functools.wraps(fn)
        def wrapper(*args, **kwargs):
            if not mon.enabled:
                return fn(*args, **kwargs)
            mon.seq += 1
            seq = mon.seq
            mon.events.append((seq, 'call', label))
            if pre is not None:
                pre(args, kwargs)
            try:
                result = fn(*args, **kwargs)
            except BaseException as exc:
                mon.raises[label] += 1
                mon.events.append((seq, 'raise', label, type(exc).__name__))
                raise
            mon.calls[label] += 1
            mon.events.append((seq, 'return', label))
            if post is not None:
                post(result, args, kwargs)
            if retain is not None and mon._retained_per_label[label] < RETAIN_PER_LABEL_PER_UNIT:
                try:
                    live = retain(result)
                except Exception:  # noqa: BLE001  (an unexpected result shape is judged by the property's own oracle)
                    live = None
                if live is not None:
                    mon._retained_per_label[label] += 1
                    try:
                        notes = _aliasing(live, args[0] if args else None, own_result)
                    except Exception:  # noqa: BLE001
                        notes = []
                    mon.retention['retained_results_examined_for_shared_buffers'] += 1
                    mon._retained.append([label, live, _freeze(live), mon.unit_no, scribble, notes])
            return result

        wrapper.__gv_original__ = fn
        return wrapper

    def end_of_unit(self, ctx, final=False):
        """Compare every retained result with the copy taken when it was returned; drop (and scribble on) the
        ones that have survived a whole further unit."""
        keep, drop = [], []
        for ent in self._retained:
            label, live, frozen, unit, scribble, notes = ent
            if notes:
                for note in notes:
                    ctx.violation(f'the result of {label}: {note}', {'label': label})
                ent[5] = []
            why = _difference(frozen, live)
            self.retention['retained_results_rechecked'] += 1
            if why is not None:
                ctx.violation(f'the result of {label} changed after it was returned to the caller ({why}); it was returned in unit #{unit} and re-read after the calls of unit #{self.unit_no}', {'label': label, 'returned': frozen, 'now': _freeze(live)})
                continue
            ctx.decided()
            if unit < self.unit_no or final:
                if scribble:
                    drop.append(live)
            else:
                keep.append(ent)
        # scribbling happens after every comparison (one array may be part of several retained results)
        for live in drop:
            self.retention['results_scribbled_on_after_use'] += _scribble(live)
        self._retained = keep
        self._retained_per_label.clear()
        self.unit_no += 1

    def attach(self, owner, name, pre=None, post=None, label=None, also=(), optional=False, retain=None, scribble=False, own_result=False):
        """Wrap ``owner.name``.  Returns True if attached."""
        label = label or f'{getattr(owner, "__name__", type(owner).__name__)}.{name}'
        try:
            raw = owner.__dict__[name] if hasattr(owner, '__dict__') and name in owner.__dict__ else getattr(owner, name)
        except AttributeError:
            if optional:
                self.calls.setdefault(label + ' [absent]', 0)
                return False
            raise
        if isinstance(raw, property):
            new = property(self._wrap_function(label, raw.fget, pre, post, retain, scribble, own_result), raw.fset, raw.fdel, raw.__doc__)
        elif isinstance(raw, classmethod):
            new = classmethod(self._wrap_function(label, raw.__func__, pre, post, retain, scribble, own_result))
        elif isinstance(raw, staticmethod):
            new = staticmethod(self._wrap_function(label, raw.__func__, pre, post, retain, scribble, own_result))
        else:
            new = self._wrap_function(label, raw, pre, post, retain, scribble, own_result)
        setattr(owner, name, new)
        self._undo.append((owner, name, raw))
        for mod, nm in also:
            if getattr(mod, nm, None) is raw:
                setattr(mod, nm, new)
                self._undo.append((mod, nm, raw))
        self.calls.setdefault(label, 0)
        return True

    def detach_all(self):
        for owner, name, raw in reversed(self._undo):
            setattr(owner, name, raw)
        self._undo.clear()

    def snapshot(self) -> dict:
        return {k: int(v) for k, v in self.calls.items()}

    def flush_counts(self, ctx, prefix='calls:'):
        """Move the call counters into the case context (and reset them)."""
        for k, v in self.calls.items():
            if v:
                ctx.count(prefix + k, v)
        for k, v in self.raises.items():
            if v:
                ctx.count('raises:' + k, v)
        for k in list(self.calls):
            self.calls[k] = 0
        self.raises.clear()
        if self._retained:
            self.end_of_unit(ctx, final=True)
        for k, v in self.retention.items():
            ctx.count(k, v)
        self.retention.clear()
