"""Attach call/return monitors to the real GEMDAT callables at run time (no source hooks).

``Monitor.attach(owner, name, pre=..., post=...)`` replaces a module attribute, method,
classmethod or property getter by a wrapper that

  * records a *call* event before invoking the original and a *return* / *raise* event after
    (boundary recording), into a bounded event log,
  * counts evaluations per observation point (zero evaluations of a deciding monitor means the
    run is inconclusive, never "held"),
  * runs the optional ``pre(args, kwargs)`` / ``post(result, args, kwargs)`` callbacks.  A callback
    may record a violation through the case context; it must not alter the result.

References that were bound before attachment (``from .utils import ffill`` inside
``gemdat.transitions``, default arguments) are not affected by patching the defining module; use
``also=[(module, name), ...]`` to patch the importing modules as well.
"""
from __future__ import annotations

import functools
from collections import Counter, deque


class Monitor:
    def __init__(self, log_size: int = 2000):
        self.calls: Counter = Counter()
        self.raises: Counter = Counter()
        self.events: deque = deque(maxlen=log_size)
        self._undo: list = []
        self.enabled = True
        self.seq = 0

    # ------------------------------------------------------------------------------------------
    def _wrap_function(self, label, fn, pre, post):
        mon = self

        @functools.wraps(fn)
        def wrapper(*args, **kwargs):
            if not mon.enabled:
                return fn(*args, **kwargs)
            mon.seq += 1
            seq = mon.seq
            mon.events.append((seq, 'call', label))
            if pre is not None:
                pre(args, kwargs)
            try:
                result = fn(*args, **kwargs)
            except BaseException as exc:
                mon.raises[label] += 1
                mon.events.append((seq, 'raise', label, type(exc).__name__))
                raise
            mon.calls[label] += 1
            mon.events.append((seq, 'return', label))
            if post is not None:
                post(result, args, kwargs)
            return result

        wrapper.__gv_original__ = fn
        return wrapper

    def attach(self, owner, name, pre=None, post=None, label=None, also=(), optional=False):
        """Wrap ``owner.name``.  Returns True if attached."""
        label = label or f'{getattr(owner, "__name__", type(owner).__name__)}.{name}'
        try:
            raw = owner.__dict__[name] if hasattr(owner, '__dict__') and name in owner.__dict__ else getattr(owner, name)
        except AttributeError:
            if optional:
                self.calls.setdefault(label + ' [absent]', 0)
                return False
            raise
        if isinstance(raw, property):
            new = property(self._wrap_function(label, raw.fget, pre, post), raw.fset, raw.fdel, raw.__doc__)
        elif isinstance(raw, classmethod):
            new = classmethod(self._wrap_function(label, raw.__func__, pre, post))
        elif isinstance(raw, staticmethod):
            new = staticmethod(self._wrap_function(label, raw.__func__, pre, post))
        else:
            new = self._wrap_function(label, raw, pre, post)
        setattr(owner, name, new)
        self._undo.append((owner, name, raw))
        for mod, nm in also:
            if getattr(mod, nm, None) is raw:
                setattr(mod, nm, new)
                self._undo.append((mod, nm, raw))
        self.calls.setdefault(label, 0)
        return True

    def detach_all(self):
        for owner, name, raw in reversed(self._undo):
            setattr(owner, name, raw)
        self._undo.clear()

    def snapshot(self) -> dict:
        return {k: int(v) for k, v in self.calls.items()}

    def flush_counts(self, ctx, prefix='calls:'):
        """Move the call counters into the case context (and reset them)."""
        for k, v in self.calls.items():
            if v:
                ctx.count(prefix + k, v)
        for k, v in self.raises.items():
            if v:
                ctx.count('raises:' + k, v)
        for k in list(self.calls):
            self.calls[k] = 0
        self.raises.clear()
