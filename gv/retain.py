"""Extractors for Monitor.attach(retain=...): the live arrays / tables of a returned result that must never
change after the call returned (see monitor.py, "result retention")."""
from __future__ import annotations

import numpy as np


def auto(result):
    """arrays, tables, plain containers of them; None for anything else (not retained)."""
    import pandas as pd

    if isinstance(result, np.ndarray):
        return result if result.size <= 4_000_000 else None  # very large results are not kept alive (memory)
    if isinstance(result, (pd.DataFrame, pd.Series)):
        return result
    if isinstance(result, dict):
        out = {k: auto(v) for k, v in result.items()}
        return out if all(v is not None for v in out.values()) else None
    if isinstance(result, (list, tuple)) and result and all(isinstance(v, (np.ndarray, int, float, np.generic)) for v in result):
        return list(result)
    if isinstance(result, (int, float, str, np.generic)):
        return result
    return None


def volume(v):
    if np.asarray(v.data).size > 4_000_000:  # very large grids are not kept alive (memory)
        return None
    return {'data': v.data}


def rdf_one(r):
    return {'x': r.x, 'y': r.y}


def rdf_dict(d):
    return {state: [{'x': it.x, 'y': it.y} for it in coll] for state, coll in d.items()}


def shapes(lst):
    return [{'coords': s.coords, 'radius': s.radius} for s in lst]


def pathway(p):
    if p is None:
        return None
    if isinstance(p, (list, tuple)):
        return [pathway(x) for x in p]
    return {'sites': p.sites, 'energy': p.energy}


def transitions(tr):
    return {'states': tr.states, 'inner': tr.inner_states, 'events': tr.events}


def transitions_parts(parts):
    return [transitions(p) for p in parts]


def collective(c):
    return {'coll_jumps': c.coll_jumps, 'collective': [tuple(map(_row, pair)) for pair in c.collective], 'n_solo': int(c.n_solo_jumps), 'n_coll': int(c.n_coll_jumps)}


def _row(ev):
    try:
        return tuple(int(x) for x in ev[['atom index', 'start site', 'destination site', 'start time', 'stop time']])
    except Exception:  # noqa: BLE001
        return repr(ev)


def jumps_parts(parts):
    return [{'data': p.data} for p in parts]
