import sys

from gv.core import main

sys.exit(main())
