"""Independent geometry used by the oracles.

Nothing in here calls GEMDAT, MDAnalysis or pymatgen's distance code: minimum-image distances
are obtained by explicit enumeration of lattice images in Cartesian space.  The only trusted
ingredients are numpy arithmetic and the 3x3 lattice matrix (rows = lattice vectors, the same
convention as ``pymatgen.core.Lattice.matrix``).
"""
from __future__ import annotations

import itertools

import numpy as np

LATTICE_KINDS = (
    'cubic',
    'tetragonal',
    'orthorhombic',
    'hexagonal',
    'rhombohedral',
    'monoclinic',
    'triclinic_mild',
    'triclinic_strong',
)


def matrix_from_parameters(a, b, c, alpha, beta, gamma):
    """Lattice matrix from cell parameters (own derivation; a along x, b in xy-plane)."""
    al, be, ga = np.radians([alpha, beta, gamma])
    ax = np.array([a, 0.0, 0.0])
    bx = np.array([b * np.cos(ga), b * np.sin(ga), 0.0])
    cx = c * np.cos(be)
    cy = c * (np.cos(al) - np.cos(be) * np.cos(ga)) / np.sin(ga)
    cz2 = c * c - cx * cx - cy * cy
    if cz2 <= 0:
        raise ValueError('angles do not form a cell')
    return np.array([ax, bx, [cx, cy, np.sqrt(cz2)]])


def random_rotation(rng) -> np.ndarray:
    """Uniform random proper rotation matrix (QR of a Gaussian matrix)."""
    q, r = np.linalg.qr(rng.normal(size=(3, 3)))
    q = q * np.sign(np.diag(r))
    if np.linalg.det(q) < 0:
        q[:, 0] = -q[:, 0]
    return q


def perp_widths(m: np.ndarray) -> np.ndarray:
    """Perpendicular widths of the cell (distance between opposite faces)."""
    vol = abs(np.linalg.det(m))
    a, b, c = m
    return np.array(
        [
            vol / np.linalg.norm(np.cross(b, c)),
            vol / np.linalg.norm(np.cross(c, a)),
            vol / np.linalg.norm(np.cross(a, b)),
        ]
    )


def random_lattice(rng, kind: str | None = None, rotate: bool | None = None, lo=3.0, hi=12.0):
    """Return (kind, rotated?, 3x3 matrix) of a random cell of the requested Bravais class."""
    if kind is None:
        kind = LATTICE_KINDS[int(rng.integers(len(LATTICE_KINDS)))]
    for _ in range(200):
        a = rng.uniform(lo, hi)
        r1, r2 = rng.uniform(1 / 1.8, 1.8, size=2)
        if kind == 'cubic':
            p = (a, a, a, 90, 90, 90)
        elif kind == 'tetragonal':
            p = (a, a, a * r1, 90, 90, 90)
        elif kind == 'orthorhombic':
            p = (a, a * r1, a * r2, 90, 90, 90)
        elif kind == 'hexagonal':
            p = (a, a, a * r1, 90, 90, 120)
        elif kind == 'rhombohedral':
            ang = rng.uniform(55, 110)
            p = (a, a, a, ang, ang, ang)
        elif kind == 'monoclinic':
            p = (a, a * r1, a * r2, 90, rng.uniform(95, 125), 90)
        elif kind == 'triclinic_mild':
            p = (a, a * r1, a * r2, *rng.uniform(80, 100, size=3))
        elif kind == 'triclinic_strong':
            p = (a, a * r1, a * r2, *rng.uniform(60, 120, size=3))
        else:
            raise ValueError(kind)
        try:
            m = matrix_from_parameters(*p)
        except ValueError:
            continue
        lengths = np.linalg.norm(m, axis=1)
        w = perp_widths(m)
        if lengths.min() < lo * 0.7 or lengths.max() > hi * 1.9:
            continue
        # keep the cell from being too flat: a usable sphere must fit
        if w.min() < 0.45 * lengths.min():
            continue
        break
    else:
        raise RuntimeError('no lattice')
    if rotate is None:
        rotate = bool(rng.integers(2))
    if rotate:
        m = m @ random_rotation(rng).T
        if rng.uniform() < 0.25:
            # left-handed setting (mirror image): same cell parameters, negative determinant
            m = m @ np.diag([1.0, 1.0, -1.0])
    return kind, bool(rotate), m


def _image_range(m: np.ndarray, dmax: float) -> np.ndarray:
    w = perp_widths(m)
    return np.floor(dmax / w + 0.5).astype(int)


def min_image(m: np.ndarray, fa: np.ndarray, fb: np.ndarray, return_image=False, chunk=4000):
    """Minimum-image distances between fractional coordinate sets.

    fa : (A, 3), fb : (B, 3) -> (A, B) distances in the unit of ``m``.
    Explicit enumeration: the fractional difference is reduced to [-0.5, 0.5] and every lattice
    image n with |n_i| <= floor(d0/w_i + 0.5) is tried, where d0 is the length of the reduced
    vector (an upper bound of the minimum) and w_i the perpendicular width of the cell, which
    provably contains the minimum.
    """
    fa = np.atleast_2d(np.asarray(fa, dtype=float))
    fb = np.atleast_2d(np.asarray(fb, dtype=float))
    d = fb[None, :, :] - fa[:, None, :]
    rnd = np.round(d)
    d = d - rnd
    shape = d.shape[:2]
    d = d.reshape(-1, 3)
    rnd = rnd.reshape(-1, 3)
    out = np.empty(len(d))
    img = np.zeros((len(d), 3), dtype=int) if return_image else None
    for s in range(0, len(d), chunk):
        dd = d[s : s + chunk]
        cart0 = dd @ m
        d0 = np.linalg.norm(cart0, axis=1)
        rr = _image_range(m, float(d0.max()) if len(d0) else 0.0)
        rng_ = [np.arange(-r, r + 1) for r in rr]
        images = np.array(list(itertools.product(*rng_)), dtype=float)
        cart_im = images @ m
        all_d = np.linalg.norm(cart0[:, None, :] + cart_im[None, :, :], axis=2)
        k = np.argmin(all_d, axis=1)
        out[s : s + chunk] = all_d[np.arange(len(dd)), k]
        if return_image:
            # total integer shift n with  min-vector = (fb - fa + n) @ m
            img[s : s + chunk] = images[k].astype(int) - rnd[s : s + chunk].astype(int)
    out = out.reshape(shape)
    if return_image:
        return out, img.reshape(shape + (3,))
    return out


def min_image_vectors(m: np.ndarray, dfrac: np.ndarray) -> np.ndarray:
    """Cartesian minimum-image vectors for fractional difference vectors (N, 3)."""
    d = np.asarray(dfrac, dtype=float).reshape(-1, 3)
    d = d - np.round(d)
    cart0 = d @ m
    d0 = np.linalg.norm(cart0, axis=1)
    rr = _image_range(m, float(d0.max()) if len(d0) else 0.0)
    images = np.array(list(itertools.product(*[np.arange(-r, r + 1) for r in rr])), dtype=float)
    cand = cart0[:, None, :] + (images @ m)[None, :, :]
    k = np.argmin(np.linalg.norm(cand, axis=2), axis=1)
    return cand[np.arange(len(d)), k].reshape(np.asarray(dfrac).shape)


def cart_len(m: np.ndarray, frac_vectors: np.ndarray) -> np.ndarray:
    """Cartesian length of fractional vectors (no periodic reduction)."""
    return np.linalg.norm(np.asarray(frac_vectors) @ m, axis=-1)


def circ_diff(a: np.ndarray, b: np.ndarray) -> np.ndarray:
    """Distance on the unit circle between fractional coordinates (element-wise)."""
    d = np.asarray(a, dtype=float) - np.asarray(b, dtype=float)
    return np.abs(d - np.round(d))


def separated_points(rng, m, n, min_dist, max_tries=2000, face_prob=0.0):
    """Rejection-sample n fractional points with pairwise minimum-image distance >= min_dist."""
    pts: list[np.ndarray] = []
    tries = 0
    while len(pts) < n and tries < max_tries:
        tries += 1
        p = rng.uniform(0, 1, size=3)
        if face_prob and rng.uniform() < face_prob:
            k = int(rng.integers(1, 4))
            ax = rng.choice(3, size=k, replace=False)
            p[ax] = rng.choice([0.0, 1e-9, 1 - 1e-9, 0.999999], size=k)
        if pts:
            dd = min_image(m, p[None, :], np.array(pts))
            if dd.min() < min_dist:
                continue
        pts.append(p)
    if len(pts) < n:
        return None
    return np.array(pts)
