import sys

from gv.core import worker_main

if __name__ == '__main__':
    worker_main(sys.argv[1:])
