"""Writers for small synthetic simulation outputs that GEMDAT's loaders can parse:
vasprun.xml (pymatgen Vasprun), LAMMPS data + xyz dump, GROMACS gro + xtc.

They exercise the loaders' control flow (cache handling), not the variety of real outputs.
"""
from __future__ import annotations

import os

import numpy as np


def _v(vec):
    return '<v> ' + ' '.join(f'{x:.10f}' for x in vec) + ' </v>'


def _structure_xml(name, matrix, frac, indent='  '):
    nm = f' name="{name}"' if name else ''
    rec = np.linalg.inv(matrix).T
    lines = [f'{indent}<structure{nm}>', f'{indent} <crystal>', f'{indent}  <varray name="basis" >']
    lines += [f'{indent}   {_v(r)}' for r in matrix]
    lines += [f'{indent}  </varray>', f'{indent}  <i name="volume">  {abs(np.linalg.det(matrix)):.8f} </i>', f'{indent}  <varray name="rec_basis" >']
    lines += [f'{indent}   {_v(r)}' for r in rec]
    lines += [f'{indent}  </varray>', f'{indent} </crystal>', f'{indent} <varray name="positions" >']
    lines += [f'{indent}  {_v(p)}' for p in frac]
    lines += [f'{indent} </varray>', f'{indent}</structure>']
    return lines


def write_vasprun(path, matrix, symbols, frames, potim=2.0, tebeg=600.0):
    """frames: [T, N, 3] fractional coordinates."""
    symbols = list(symbols)
    order = list(dict.fromkeys(symbols))
    L = ['<?xml version="1.0" encoding="ISO-8859-1"?>', '<modeling>']
    L += [' <generator>', '  <i name="program" type="string">vasp </i>', '  <i name="version" type="string">5.4.4  </i>', '  <i name="subversion" type="string">synthetic </i>', ' </generator>']
    L += [' <incar>', '  <i type="int" name="IBRION">     0</i>', f'  <i name="POTIM">      {potim:.8f}</i>', f'  <i name="TEBEG">    {tebeg:.8f}</i>', f'  <i type="int" name="NSW">  {len(frames)}</i>', ' </incar>']
    L += [' <kpoints>', '  <generation param="Gamma">', '   <v type="int" name="divisions">       1        1        1 </v>', '   <v name="usershift">      0.00000000       0.00000000       0.00000000 </v>', '  </generation>', '  <varray name="kpointlist" >', '   <v>       0.00000000       0.00000000       0.00000000 </v>', '  </varray>', '  <varray name="weights" >', '   <v>       1.00000000 </v>', '  </varray>', ' </kpoints>']
    L += [' <parameters>', '  <separator name="ionic" >', f'   <i type="int" name="NSW">  {len(frames)}</i>', '   <i type="int" name="IBRION">     0</i>', f'   <i name="POTIM">      {potim:.8f}</i>', '   <i name="EDIFFG">     -0.01000000</i>', '  </separator>', '  <separator name="ionic md" >', f'   <i name="TEBEG">    {tebeg:.8f}</i>', f'   <i name="TEEND">    {tebeg:.8f}</i>', '  </separator>', '  <separator name="electronic" >', '   <i type="int" name="NELM">    60</i>', '   <i name="EDIFF">      0.00010000</i>', '   <i type="int" name="ISPIN">     1</i>', '   <i type="logical" name="LNONCOLLINEAR"> F  </i>', '   <i type="logical" name="LSORBIT"> F  </i>', '  </separator>', ' </parameters>']
    L += [' <atominfo>', f'  <atoms>      {len(symbols)} </atoms>', f'  <types>       {len(order)} </types>', '  <array name="atoms" >', '   <dimension dim="1">ion</dimension>', '   <field type="string">element</field>', '   <field type="int">atomtype</field>', '   <set>']
    L += [f'    <rc><c>{s:<2s}</c><c>{order.index(s) + 1:4d}</c></rc>' for s in symbols]
    L += ['   </set>', '  </array>', '  <array name="atomtypes" >', '   <dimension dim="1">type</dimension>', '   <field type="int">atomspertype</field>', '   <field type="string">element</field>', '   <field>mass</field>', '   <field>valence</field>', '   <field type="string">pseudopotential</field>', '   <set>']
    L += [f'    <rc><c>{symbols.count(s):4d}</c><c>{s:<2s}</c><c>      1.00000000</c><c>      1.00000000</c><c>  PAW_PBE {s} 01Jan2000                   </c></rc>' for s in order]
    L += ['   </set>', '  </array>', ' </atominfo>']
    L += _structure_xml('initialpos', matrix, frames[0], ' ')
    for t, fr in enumerate(frames):
        L += [' <calculation>', '  <scstep>', '   <energy>', f'    <i name="e_fr_energy">    {-10.0 - 0.01 * t:.8f} </i>', f'    <i name="e_wo_entrp">    {-10.0 - 0.01 * t:.8f} </i>', f'    <i name="e_0_energy">    {-10.0 - 0.01 * t:.8f} </i>', '   </energy>', '  </scstep>']
        L += _structure_xml('', matrix, fr, '  ')
        L += ['  <varray name="forces" >'] + [f'   {_v([0.0, 0.0, 0.0])}' for _ in symbols] + ['  </varray>']
        L += ['  <energy>', f'   <i name="e_fr_energy">    {-10.0 - 0.01 * t:.8f} </i>', f'   <i name="e_wo_entrp">    {-10.0 - 0.01 * t:.8f} </i>', f'   <i name="e_0_energy">    {-10.0 - 0.01 * t:.8f} </i>', '  </energy>', ' </calculation>']
    L += _structure_xml('finalpos', matrix, frames[-1], ' ')
    L += ['</modeling>', '']
    with open(path, 'w') as f:
        f.write('\n'.join(L))


def write_lammps(data_path, xyz_path, lengths, symbols, cart_frames, numeric_names=False, dual_format=False):
    """Orthogonal box LAMMPS data file (atom_style atomic) + xyz dump (Cartesian)."""
    symbols = list(symbols)
    order = list(dict.fromkeys(symbols))
    masses = {'Li': 6.94, 'S': 32.06, 'P': 30.974, 'O': 15.999, 'Na': 22.99, 'Si': 28.085}
    L = ['LAMMPS data file (synthetic)', '', f'{len(symbols)} atoms', f'{len(order)} atom types', '', f'0.0 {lengths[0]:.8f} xlo xhi', f'0.0 {lengths[1]:.8f} ylo yhi', f'0.0 {lengths[2]:.8f} zlo zhi', '', 'Masses', '']
    L += [f'{i + 1} {masses.get(s, 1.0)}' for i, s in enumerate(order)]
    L += ['', 'Atoms # atomic', '']
    for i, (s, xyz) in enumerate(zip(symbols, cart_frames[0])):
        L.append(f'{i + 1} {order.index(s) + 1} {xyz[0]:.8f} {xyz[1]:.8f} {xyz[2]:.8f}')
    L.append('')
    with open(data_path, 'w') as f:
        f.write('\n'.join(L))
    with open(xyz_path, 'w') as f:
        for t, fr in enumerate(cart_frames):
            if dual_format and numeric_names:
                # a dump that is valid both as XYZ (name x y z ...) and as Tinker TXYZ with a box line
                # (index name x y z type): the two readings take different columns as coordinates
                f.write(f'{len(symbols)}\n{lengths[0]:.6f} {lengths[1]:.6f} {lengths[2]:.6f} 90.0 90.0 90.0\n')
                for s, xyz in zip(symbols, fr):
                    nm = str(order.index(s) + 1)
                    w = 0.5 * (xyz[0] + xyz[2]) % lengths[2]
                    f.write(f'{nm} {xyz[0]:.6f} {xyz[1]:.6f} {xyz[2]:.6f} {w:.6f} {nm}\n')
                continue
            f.write(f'{len(symbols)}\nAtoms. Timestep: {t}\n')
            for s, xyz in zip(symbols, fr):
                nm = str(order.index(s) + 1) if numeric_names else s
                f.write(f'{nm} {xyz[0]:.6f} {xyz[1]:.6f} {xyz[2]:.6f}\n')
    return {str(i + 1): s for i, s in enumerate(order)}


def write_gromacs(gro_path, xtc_path, lengths, symbols, cart_frames, dt_ps=2.0):
    """gro topology + xtc trajectory through MDAnalysis writers (orthogonal box, Angstrom in)."""
    import warnings

    import MDAnalysis as mda

    n = len(symbols)
    with warnings.catch_warnings():
        warnings.simplefilter('ignore')
        u = mda.Universe.empty(n, n_residues=n, atom_resindex=np.arange(n), trajectory=True)
        u.add_TopologyAttr('name', [s.upper() + '1' for s in symbols])
        u.add_TopologyAttr('type', list(symbols))
        u.add_TopologyAttr('resname', ['MOL'] * n)
        u.add_TopologyAttr('resid', list(range(1, n + 1)))
        dims = np.array([lengths[0], lengths[1], lengths[2], 90.0, 90.0, 90.0], dtype=np.float32)
        u.atoms.positions = np.asarray(cart_frames[0], dtype=np.float32)
        u.dimensions = dims
        u.atoms.write(gro_path)
        with mda.Writer(xtc_path, n_atoms=n, dt=dt_ps) as w:
            for t, fr in enumerate(cart_frames):
                u.atoms.positions = np.asarray(fr, dtype=np.float32)
                u.dimensions = dims
                u.trajectory.ts.time = t * dt_ps
                u.trajectory.ts.frame = t
                w.write(u.atoms)
    for fn in os.listdir(os.path.dirname(xtc_path)):
        # MDAnalysis offset caches (.npz lock files) next to the trajectory are harmless
        pass
