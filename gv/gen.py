"""Workload generators: lattices, trajectories with known unwrapped ground truth, site sets and
state histories that are *realised geometrically* so that the real GEMDAT pipeline runs on them.

Imports of the code under test happen inside the functions (after gv.core bound sys.path).
"""
from __future__ import annotations

from dataclasses import dataclass, field

from collections import Counter

import numpy as np

from . import geom
from .core import Skip

HOSTILE = [
    0.0,
    -0.0,
    1.0,
    -1e-17,
    -1e-16,
    1 - 1e-16,
    float(np.nextafter(1.0, 0.0)),
    float(np.nextafter(0.0, 1.0)),
    -float(np.nextafter(0.0, 1.0)),
    5e-324,
    -5e-324,
    1e-300,
    -1e-300,
    0.5,
    1 - 2**-53,
    -(2**-53),
    -(2**-54),
    1e-9,
    1 - 1e-9,
]


PRESENTATION = Counter()


def species_objects(names, rng=None, mode='mixed'):
    """pymatgen Species / Element objects for symbol names."""
    from pymatgen.core import Element, Species

    OX = {'Li': 1, 'Na': 1, 'Ag': 1, 'S': -2, 'O': -2, 'P': 5, 'Si': 4, 'B': 3, 'H': 1}
    if mode == 'mixed' and rng is not None and rng.uniform() < 0.15:
        mode = 'valence'
        PRESENTATION['species_lists_with_per_atom_variants_of_a_symbol'] += 1
    if mode == 'valence':
        # mixed valence: every atom gets its own variant of its symbol (Element, neutral or charged Species)
        out = []
        for n in names:
            ox = OX.get(n, 1)
            k = int(rng.integers(4))
            out.append([Element(n), Species(n), Species(n, ox), Species(n, ox + 1)][k])
        return out
    out = []
    # oxidation states are decided per symbol, so that equal symbols stay equal species objects
    charged = {n: (rng is not None and mode in ('species', 'mixed') and rng.uniform() < 0.25) for n in dict.fromkeys(names)}
    kinds = {n: (mode == 'species' or (mode == 'mixed' and rng is not None and bool(rng.integers(2)))) for n in dict.fromkeys(names)}
    for n in names:
        if kinds[n]:
            out.append(Species(n, OX.get(n, 1)) if charged[n] else Species(n))
        else:
            out.append(Element(n))
    return out


def make_trajectory(matrix, species, coords, time_step=1e-15, metadata=None, presentation='auto', **kw):
    """Trajectory from arrays.

    presentation='auto': the way the same data is handed over varies deterministically with the data
    (CRC of the coordinates): memory layout of the coordinate array (C order, Fortran order, an
    axis-permuted view); for a fifth of the position-mode inputs the object is left in displacement
    representation (as after any displacement-based query); for a quarter the metadata is not passed to the
    constructor but assigned item by item afterwards.  presentation='plain': C order, as given.
    """
    import zlib

    from gemdat import Trajectory
    from pymatgen.core import Lattice

    c = np.array(coords, dtype=float, order='C')
    crc = zlib.crc32(c.tobytes()) if presentation == 'auto' else 0
    lay = (crc >> 3) % 4 if presentation == 'auto' and c.ndim == 3 else 0
    if lay == 1:
        c = np.asfortranarray(c)
    elif lay == 2:
        c = np.ascontiguousarray(c.transpose(2, 0, 1)).transpose(1, 2, 0)
    PRESENTATION[f'trajectory_coords_layout:{["C", "F", "permuted_view", "C"][lay]}'] += 1
    meta = dict(metadata) if metadata is not None else {'temperature': 300.0}
    by_assignment = presentation == 'auto' and (crc >> 11) % 4 == 0
    traj = Trajectory(
        species=list(species),
        coords=c,
        lattice=Lattice(np.array(matrix, dtype=float)),
        time_step=time_step,
        metadata=None if by_assignment else meta,
        **kw,
    )
    if by_assignment:
        # built without metadata; the entries are assigned one by one afterwards (traj.metadata['temperature'] = T)
        for k_, v_ in meta.items():
            traj.metadata[k_] = v_
        PRESENTATION['trajectory_metadata_assigned_after_construction'] += 1
    if presentation == 'auto' and not kw.get('coords_are_displacement') and (crc >> 7) % 5 == 0 and len(c) >= 1:
        traj.to_displacements()
        PRESENTATION['trajectory_left_in_displacement_representation'] += 1
    return traj


def random_walk(rng, T, N, max_step=0.2, drift=None, base_lo=-2.0, base_hi=3.0, p_still=0.0):
    """Unwrapped fractional coordinates U[t, a, :] with per-coordinate steps in (-max_step, max_step)."""
    base = rng.uniform(base_lo, base_hi, size=(1, N, 3))
    scale = rng.uniform(0.05, 1.0, size=(1, N, 1)) * max_step
    steps = rng.uniform(-1, 1, size=(T, N, 3)) * scale
    if p_still:
        still = rng.uniform(size=(1, N, 1)) < p_still
        steps = np.where(still, 0.0, steps)
    steps[0] = 0
    if drift is not None:
        steps = steps + drift
        steps[0] = 0
    return base + np.cumsum(steps, axis=0)


# ---------------------------------------------------------------------------------------------
# site systems
# ---------------------------------------------------------------------------------------------
@dataclass
class SiteSystem:
    kind: str
    rotated: bool
    matrix: np.ndarray
    site_frac: np.ndarray
    labels: list
    radii: np.ndarray  # per site
    site_radius_arg: object  # float | dict
    inner_fraction: float
    floating: str
    species_names: list
    coords: np.ndarray  # [T, N, 3] fractional, all atoms (floating first)
    n_floating: int
    states_true: np.ndarray  # [T, n_floating]
    inner_true: np.ndarray
    time_step: float = 2e-15
    temperature: float = 500.0
    margin: float = 0.1
    via_image: int = 0
    extras: dict = field(default_factory=dict)

    def lattice(self):
        from pymatgen.core import Lattice

        return Lattice(self.matrix)

    def sites_structure(self):
        from pymatgen.core import Structure

        # the species written on the sites is irrelevant for where the sites are: for a third of the systems
        # (decided by the data) the site structure names other / several elements
        import zlib

        sp = [self.floating] * len(self.site_frac)
        crc = zlib.crc32(np.ascontiguousarray(self.site_frac).tobytes())
        if crc % 3 == 0:
            pool = ['Na', 'X'] if crc % 2 else [self.floating, 'Na', 'Mg']
            pool = [p_ for p_ in pool if p_ != 'X'] or ['Na']
            sp = [pool[(crc >> (3 + i)) % len(pool)] for i in range(len(sp))]
            PRESENTATION['site_structures_naming_other_or_several_elements'] += 1
        return Structure(
            lattice=self.lattice(),
            species=sp,
            coords=self.site_frac,
            labels=list(self.labels),
        )

    def atom_order(self, interleave):
        """Order in which the atoms are listed: as generated (diffusing species first), or - for every second
        system, decided by the data - with the framework atoms in front of / between the diffusing atoms (the
        relative order of the diffusing atoms is kept, so per-atom results keep their meaning)."""
        import zlib

        n, nf = len(self.species_names), self.n_floating
        if not interleave or n == nf or (zlib.crc32(np.ascontiguousarray(self.coords).tobytes()) >> 5) % 2 == 0:
            return list(range(n))
        r = np.random.default_rng(zlib.crc32(np.ascontiguousarray(self.coords).tobytes()))
        slots = np.sort(r.choice(n, size=nf, replace=False)) if r.integers(2) else np.arange(n - nf, n)
        order = [None] * n
        fl, fw = iter(range(nf)), iter(range(nf, n))
        for i in range(n):
            order[i] = next(fl) if i in set(slots.tolist()) else next(fw)
        PRESENTATION['trajectories_with_framework_atoms_before_or_between_the_diffusing_atoms'] += 1
        return order

    def trajectory(self, species_mode='element', rng=None, interleave=False):
        order = self.atom_order(interleave)
        sp = species_objects([self.species_names[i] for i in order], rng=rng, mode=species_mode)
        return make_trajectory(
            self.matrix, sp, self.coords[:, order], time_step=self.time_step, metadata={'temperature': self.temperature}
        )

    def transitions(self, traj=None, sites=None):
        traj = traj if traj is not None else self.trajectory(interleave=True)
        sites = sites if sites is not None else self.sites_structure()
        return traj.transitions_between_sites(
            sites=sites,
            floating_specie=self.floating,
            site_radius=self.site_radius_arg,
            site_inner_fraction=self.inner_fraction,
        )


def random_unit_vectors(rng, n):
    v = rng.normal(size=(n, 3))
    return v / np.linalg.norm(v, axis=1, keepdims=True)


def hop_histories(rng, T, n_atoms, n_sites, p_move=0.25, p_direct=0.3, p_return=0.35, allow_shared=True):
    """Random site histories states[t, a] in {-1, 0..n_sites-1}; never two atoms on one site."""
    states = np.full((T, n_atoms), -1, dtype=int)
    free = list(rng.permutation(n_sites))
    cur = []
    last_site = []
    for a in range(n_atoms):
        if free and rng.uniform() < 0.8:
            s = int(free.pop())
        else:
            s = -1
        cur.append(s)
        last_site.append(s)
    states[0] = cur
    for t in range(1, T):
        prev = list(cur)
        occupied_prev = {s for s in prev if s >= 0}
        claimed = set()
        order = rng.permutation(n_atoms)
        movers = []
        for a in order:
            if rng.uniform() < p_move:
                movers.append(a)
            else:
                if prev[a] >= 0:
                    claimed.add(prev[a])
        for a in movers:
            s = prev[a]
            cand = [x for x in range(n_sites) if x not in claimed and x not in occupied_prev]
            if s >= 0:
                # leave: to no-site or directly to another site
                if cand and rng.uniform() < p_direct:
                    new = int(cand[int(rng.integers(len(cand)))])
                else:
                    new = -1
            else:
                ls = last_site[a]
                if ls >= 0 and ls not in claimed and (ls not in occupied_prev) and rng.uniform() < p_return:
                    new = ls
                elif cand:
                    new = int(cand[int(rng.integers(len(cand)))])
                else:
                    new = -1
            if new >= 0:
                claimed.add(new)
            cur[a] = new
        for a in range(n_atoms):
            if cur[a] >= 0:
                last_site[a] = cur[a]
        states[t] = cur
    return states


def inner_flags(rng, states, inner_fraction, p_flip=0.3):
    """inner[t, a] = states[t, a] if the atom sits in the inner sphere else -1."""
    if inner_fraction >= 1.0:
        return states.copy()
    T, N = states.shape
    inner = np.full_like(states, -1)
    for a in range(N):
        flag = bool(rng.integers(2))
        never = rng.uniform() < 0.15
        for t in range(T):
            if rng.uniform() < p_flip:
                flag = not flag
            if states[t, a] >= 0 and flag and not never:
                inner[t, a] = states[t, a]
    return inner


def nosite_points(rng, matrix, site_frac, radii, n, margin, max_tries=200):
    """Fractional points farther than (1+margin)*r_s (+0.02 A) from every site s."""
    out = np.empty((0, 3))
    for _ in range(max_tries):
        cand = rng.uniform(0, 1, size=(max(2 * n, 16), 3))
        d = geom.min_image(matrix, cand, site_frac)
        ok = np.all(d > radii[None, :] * (1 + margin) + 0.02, axis=1)
        out = np.vstack([out, cand[ok]])
        if len(out) >= n:
            return out[:n]
    raise Skip('no room for no-site points')


def realise_positions(rng, matrix, site_frac, radii, inner_fraction, states, inner, margin, edge_prob=0.3):
    """Fractional positions [T, N, 3] that realise the given (site, inner) histories.

    inner sphere: r in [0, (1-margin) f R]; outer shell: r in [(1+margin) f R, (1-margin) R];
    no site: farther than (1+margin) R_s from every site.  With probability edge_prob the radius is
    put right at the allowed extreme, so the real neighbour search is probed near its boundary.
    """
    T, N = states.shape
    pos = np.empty((T, N, 3))
    inv = np.linalg.inv(matrix)
    n_no = int((states < 0).sum())
    nos = nosite_points(rng, matrix, site_frac, radii, n_no, margin) if n_no else np.empty((0, 3))
    k = 0
    via_image = 0
    for t in range(T):
        for a in range(N):
            s = states[t, a]
            if s < 0:
                pos[t, a] = nos[k]
                k += 1
                continue
            R = radii[s]
            f = inner_fraction
            if inner[t, a] >= 0:
                lo, hi = 0.02 * f * R, (1 - margin) * f * R
            else:
                lo, hi = (1 + margin) * f * R, (1 - margin) * R
                if lo > hi:
                    raise Skip('no outer shell')
            u = rng.uniform()
            if u < edge_prob / 2:
                r = hi
            elif u < edge_prob:
                r = lo
            else:
                r = rng.uniform(lo, hi)
            v = random_unit_vectors(rng, 1)[0] * r
            p = site_frac[s] + v @ inv
            w = np.mod(p, 1)
            if np.any(np.floor(p) != 0):
                via_image += 1
            pos[t, a] = w
    return pos, via_image


LABEL_VOCABS = [['A', 'B', 'C'], ['Li1', 'Li10', 'Li100'], ['48h', '48h2', '4'], ['Li', 'i', 'L'], ['B', 'AB', 'ABA'], ['a', 'A', 'a '], ['8a', '16e', '48h'], ['Li2', 'Li10', 'Li1']]


def make_site_system(
    rng,
    *,
    n_sites=None,
    n_atoms=None,
    T=None,
    kind=None,
    rotate=None,
    radius_mode=None,
    inner_fraction=None,
    n_labels=None,
    margin=0.1,
    face_sites=0.3,
    n_framework=None,
    p_move=0.25,
    unvisited_member=None,
    lo=5.0,
    hi=11.0,
    tail_last_frame_hop=False,
    p_direct=0.3,
    distinct_labels=False,
) -> SiteSystem:
    """Random margin-controlled site system (see module docstring)."""
    kind, rotated, m = geom.random_lattice(rng, kind, rotate, lo=lo, hi=hi)
    n_sites = n_sites or int(rng.integers(2, 8))
    n_atoms = n_atoms or int(rng.integers(1, min(4, n_sites) + 1))
    T = T or int(rng.integers(8, 60))
    n_labels = min(n_labels or int(rng.integers(1, min(3, n_sites) + 1)), n_sites)
    if inner_fraction is None:
        inner_fraction = float(rng.choice([1.0, 1.0, 0.9, 0.5, 0.3]))
    radius_mode = radius_mode or str(rng.choice(['float', 'dict']))
    # label vocabularies include names that are prefixes / suffixes / substrings of each other
    vocab = LABEL_VOCABS[int(rng.integers(len(LABEL_VOCABS)))]
    label_names = [vocab[i] for i in rng.permutation(3)][:n_labels]
    # non-contiguous label assignment, every label used at least once
    labels = [label_names[i % n_labels] for i in range(n_sites)]
    labels = list(rng.permutation(labels))
    if distinct_labels:
        # every site its own label, listed in sorted order (Li01, Li02, ...: a fully labelled crystallographic site list)
        label_names = [f'Li{k + 1:02d}' for k in range(n_sites)]
        labels = list(label_names)
    w = geom.perp_widths(m)
    rmax = min(1.2, 0.22 * w.min())
    if rmax < 0.3:
        raise Skip('cell too small')
    if radius_mode == 'float':
        r0 = float(rng.uniform(0.3, rmax))
        radii = np.full(n_sites, r0)
        arg: object = r0
    else:
        per_label = {lb: float(rng.uniform(0.3, rmax)) for lb in label_names}
        radii = np.array([per_label[lb] for lb in labels])
        arg = per_label
    # well separated sites: spheres disjoint with margin
    sep = 2 * radii.max() * (1 + margin) + 0.1
    site_frac = geom.separated_points(rng, m, n_sites, sep, face_prob=face_sites)
    if site_frac is None:
        raise Skip('sites do not fit')
    states = hop_histories(rng, T, n_atoms, n_sites, p_move=p_move, p_direct=p_direct)
    if unvisited_member is None:
        unvisited_member = rng.uniform() < 0.5
    if unvisited_member and n_sites > 2:
        # make one site never visited (exercise group-local -> global index mapping)
        victim = int(rng.integers(n_sites))
        states = np.where(states == victim, -1, states)
    tail = None
    if T >= 8 and rng.uniform() < 0.4:
        # tail event: atom a arrives at a new site at frame t0 and stays there to the end; with an
        # inner fraction < 1 it only reaches the outer shell (a jump that the inner-site rule leaves
        # unconfirmed when the data end).  Atom a+1 is a late starter: away from all sites until
        # after t0, so that atoms have very different first-event times.
        a = int(rng.integers(n_atoms))
        t0 = int(rng.integers(T // 3, T - 1))
        cur_s = int(states[t0 - 1, a])
        others = [b for b in range(n_atoms) if b != a]
        free_sites = [x for x in range(n_sites) if x != cur_s and not np.any(states[t0 - 1 :, others] == x)]
        if cur_s >= 0 and free_sites:
            states[t0:, a] = int(free_sites[int(rng.integers(len(free_sites)))])
            if rng.integers(2) and t0 + 1 < T:
                states[t0, a] = -1  # through no-site rather than by a direct hop
            tail = (a, t0)
            if n_atoms > 1 and rng.uniform() < 0.7:
                b = (a + 1) % n_atoms
                t1 = int(rng.integers(t0 + 1, T)) if t0 + 1 < T else T - 1
                states[:t1, b] = -1
    if tail_last_frame_hop and T >= 3:
        # every atom that can changes site between the last two frames (events at time index T-2)
        for a in range(n_atoms):
            others_now = {int(x) for x in states[-1] if x >= 0} | {int(x) for x in states[-2] if x >= 0}
            cand = [x for x in range(n_sites) if x not in others_now]
            if len(cand) >= 2:
                states[-2, a], states[-1, a] = int(cand[0]), int(cand[1])
    inner = inner_flags(rng, states, inner_fraction)
    if tail is not None and inner_fraction < 1.0:
        inner[tail[1] :, tail[0]] = -1
    pos, via_image = realise_positions(rng, m, site_frac, radii, inner_fraction, states, inner, margin)
    # framework atoms
    n_framework = int(rng.integers(1, 5)) if n_framework is None else n_framework
    fw_names = [str(x) for x in rng.choice(['S', 'Si', 'P', 'O'], size=n_framework)]
    fw_base = rng.uniform(0, 1, size=(1, n_framework, 3))
    fw = np.mod(fw_base + rng.normal(scale=0.01, size=(T, n_framework, 3)), 1)
    coords = np.concatenate([pos, fw], axis=1)
    return SiteSystem(
        kind=kind,
        rotated=rotated,
        matrix=m,
        site_frac=site_frac,
        labels=[str(x) for x in labels],
        radii=radii,
        site_radius_arg=arg,
        inner_fraction=inner_fraction,
        floating='Li',
        species_names=['Li'] * n_atoms + fw_names,
        coords=coords,
        n_floating=n_atoms,
        states_true=states,
        inner_true=inner,
        margin=margin,
        via_image=via_image,
    )


def make_many_site_system(rng, n_sites, n_atoms=2, T=40, inner_fraction=1.0, margin=0.04, p_move=0.3, prefer_high=True):
    """A site system with hundreds to thousands of sites on a jittered fractional grid of a large
    cell (site indices beyond the int8 / uint8 / 3-digit ranges); atoms prefer high-index sites."""
    kind, rotated, m = geom.random_lattice(rng, str(rng.choice(['cubic', 'orthorhombic', 'hexagonal', 'triclinic_mild'])), None, lo=5.0, hi=8.0)
    k = int(np.ceil(n_sites ** (1 / 3))) + 1
    spacing = 3.2
    scale = k * spacing / geom.perp_widths(m).min()
    m = m * scale
    grid = np.array([(i, j, l) for i in range(k) for j in range(k) for l in range(k)], dtype=float)
    pick = rng.choice(len(grid), size=n_sites, replace=False)
    site_frac = (grid[pick] + 0.5 + rng.uniform(-0.12, 0.12, size=(n_sites, 3))) / k
    w = geom.perp_widths(m).min() / k
    R = 0.28 * w
    radii = np.full(n_sites, R)
    # hop histories on a small subset of sites mapped to (preferably) high indices
    sub = int(min(n_sites // 2, max(4, 3 * n_atoms)))
    idx = np.sort(rng.choice(np.arange(n_sites // 2, n_sites) if prefer_high else np.arange(n_sites), size=sub, replace=False))
    if prefer_high:
        idx[-1] = n_sites - 1
    local = hop_histories(rng, T, n_atoms, sub, p_move=p_move)
    states = np.where(local >= 0, idx[np.clip(local, 0, None)], -1)
    inner = inner_flags(rng, states, inner_fraction)
    # no-site points: the centre of a grid cell that holds no site
    free = np.setdiff1d(np.arange(len(grid)), pick)
    inv = np.linalg.inv(m)
    pos = np.empty((T, n_atoms, 3))
    for t in range(T):
        for a in range(n_atoms):
            sidx = states[t, a]
            if sidx < 0:
                g = grid[free[int(rng.integers(len(free)))]] if len(free) else grid[pick[0]] + 0.5
                pos[t, a] = np.mod((g + 0.5 + rng.uniform(-0.05, 0.05, size=3)) / k, 1) if len(free) else np.mod(site_frac[0] + 0.5 / k, 1)
                continue
            f = inner_fraction
            lo, hi = (0.02 * f * R, (1 - margin) * f * R) if inner[t, a] >= 0 else ((1 + margin) * f * R, (1 - margin) * R)
            r = rng.uniform(lo, hi)
            pos[t, a] = np.mod(site_frac[sidx] + (random_unit_vectors(rng, 1)[0] * r) @ inv, 1)
    fw = np.mod(rng.uniform(0, 1, size=(1, 1, 3)) + rng.normal(scale=0.001, size=(T, 1, 3)), 1)
    labels = [str(x) for x in rng.choice(['A', 'B'], size=n_sites)]
    return SiteSystem(kind=kind, rotated=rotated, matrix=m, site_frac=site_frac, labels=labels, radii=radii, site_radius_arg=float(R), inner_fraction=inner_fraction, floating='Li', species_names=['Li'] * n_atoms + ['S'], coords=np.concatenate([pos, fw], axis=1), n_floating=n_atoms, states_true=states, inner_true=inner, margin=margin)
