"""C02 — site assignment follows the true minimum-image distance for every cell and radius."""
from __future__ import annotations

import traceback
import warnings

import numpy as np

from .. import gen, geom, snap
from ..core import Skip, signature
from ..monitor import Monitor

ID = 'C02'
LEVEL = 'exploration'
RULE = (
    'cases: random site systems in the lattice zoo (8 Bravais classes incl. strongly triclinic, half of the cells '
    'arbitrarily rotated): 2-8 sites (30 % on cell faces / corners), 1-3 labels assigned non-contiguously (label vocabularies include names that are prefixes / suffixes / substrings of each other: Li1/Li10/Li100, 48h/48h2/4, B/AB/ABA), in half '
    'of the cases one site is never visited; radius as float / per-label dict / automatic (None); inner fraction in '
    '{1, 0.9, 0.5, 0.3}; atoms (i) margin-controlled: placed in the inner sphere, the outer shell or outside all '
    'spheres at +-4 % of the radius, frequently through a periodic image, and (ii) uniformly random; a tenth of the '
    'cases use overlapping user radii.  Oracle: explicit lattice-image enumeration (gv.geom.min_image) with a '
    '+-1e-4 A band for MDAnalysis\' float32 search.  Non-trivial = at least one atom-frame assigned to a site through '
    'a non-zero lattice image; distinct = SHA-1 of (cell, sites, radii, positions).'
)
RULE += ' Added in rounds 6-10: repeated calls on the same objects with other settings; radius dicts with equal values or not naming every label; structures with ONE site per cell (automatic radius = K9); cells with one short edge and radii beyond half of it; positions listed twice in automatic-radius cases (40 % of the vibration-limited cases).'
ASSUMPTIONS = [
    'distances within 1e-4 A of the radius accept either answer (MDAnalysis searches in float32)',
    'with overlapping user-supplied spheres any covering site is accepted (the statement does not order them)',
    'automatic radius: the vibration amplitude entering min(2*vib, d_min/2 - 0.005) is read from the real TrajectoryMetrics (its own laws are C14)',
    'K1 (MDAnalysis PeriodicKDTree loses pairs in strongly skewed boxes) is a third-party defect, tolerated only when a direct MDAnalysis call reproduces the miss',
]
N_CASES = {'quick': 480, 'thorough': 100000}
BUDGET_S = {'quick': 220, 'thorough': 3600}
BAND = 1e-4
MAX_CLASSIFY = 1000  # every miss is classified individually (a unit has a few hundred atom-frames)
K1 = 'K1-mdanalysis-pkdtree-skewed-box'
K9 = 'K9-automatic-radius-single-site'

_mon = Monitor()
_seen = {'radius': None, 'auto_radius': None}


def units(tier):
    return [{'k': 'rand', 'i': i} for i in range(N_CASES[tier])]


def _record_states_args(args, kwargs):
    sr = kwargs.get('site_radius', args[2] if len(args) > 2 else None)
    _seen['radius'] = dict(sr) if isinstance(sr, dict) else sr


def _record_auto(result, args, kwargs):
    _seen['auto_radius'] = float(result)


def setup(ctx):
    import gemdat.transitions as gt
    from gemdat import Trajectory

    from .. import retain as _rt

    _mon.attach(Trajectory, 'transitions_between_sites', label='Trajectory.transitions_between_sites', retain=_rt.transitions)
    _mon.attach(gt.Transitions, 'from_trajectory', label='Transitions.from_trajectory', retain=_rt.transitions)
    _mon.attach(gt, '_calculate_atom_states', pre=_record_states_args, optional=True, label='_calculate_atom_states')
    _mon.attach(gt, '_compute_site_radius', post=_record_auto, optional=True, label='_compute_site_radius')


def teardown(ctx):
    _mon.flush_counts(ctx)
    _mon.detach_all()


def mda_pair_found(m, all_frac, group_site_frac, s_local, radius, cutoff, atom_flat_index):
    """Direct MDAnalysis calls (no GEMDAT code): (pkdtree finds the pair?, brute force finds it?).

    group_site_frac: all site centres that are searched together with the same radius (the whole
    site set for a single radius, the label group for per-label radii); s_local indexes into it."""
    from MDAnalysis.lib.distances import distance_array
    from MDAnalysis.lib.mdamath import triclinic_vectors
    from MDAnalysis.lib.pkdtree import PeriodicKDTree

    from pymatgen.core import Lattice

    # same numbers GEMDAT hands to MDAnalysis: float64 cell parameters -> box matrix, float32 box
    params = np.array(Lattice(np.asarray(m)).parameters)
    box = params.astype(np.float32)
    bm = triclinic_vectors(params, dtype=np.float64)
    atoms = np.asarray(all_frac).reshape(-1, 3) @ bm
    centres = np.asarray(group_site_frac).reshape(-1, 3) @ bm
    site = centres[s_local : s_local + 1]
    tree = PeriodicKDTree(box=box)
    tree.set_coords(atoms, cutoff=cutoff)
    pairs = tree.search_tree(centres, radius)
    found = bool(len(pairs) and np.any((pairs[:, 1] == atom_flat_index) & (pairs[:, 0] == s_local)))
    brute = float(distance_array(site.astype(np.float32), atoms[atom_flat_index : atom_flat_index + 1].astype(np.float32), box=box)[0, 0])
    return found, brute < radius


def site_group(groups, s, S):
    """indices of the sites searched together with site s (same label when radii are per label)."""
    if groups is None:
        return list(range(S))
    return [i for i in range(S) if groups[i] == groups[s]]


def check_assignment(ctx, what, m, pos, site_frac, radii, f, states, inner, disjoint, cutoff, wit, groups=None):
    """The deciding oracle.  pos [T, A, 3] wrapped fractional, states/inner [T, A]."""
    T, A, _ = pos.shape
    S = len(site_frac)
    flat = pos.reshape(-1, 3)
    d, img = geom.min_image(m, flat, site_frac, return_image=True)
    n_bad = 0
    n_known = 0
    for name, arr, fac in (('site', states, 1.0), ('inner site', inner, f)):
        arr = np.asarray(arr).reshape(-1)
        rr = radii[None, :] * fac
        must = d < rr - BAND
        may = d < rr + BAND
        ctx.decided(len(arr))
        # 'no site' although some site is within its radius
        miss = np.nonzero((arr < 0) & must.any(axis=1))[0]
        # a site that is not within its radius
        valid = (arr >= 0) & (arr < S)
        wrong = np.nonzero((arr >= S) | (arr < -1) | (valid & ~may[np.arange(len(arr)), np.clip(arr, 0, S - 1)]))[0]
        for k in miss[:MAX_CLASSIFY]:
            s = int(np.argmax(must[k]))
            try:
                grp = site_group(groups, s, S)
                found, brute = mda_pair_found(m, flat, site_frac[grp], grp.index(s), float(radii[s] * fac), cutoff, int(k))
            except Exception:  # noqa: BLE001
                found, brute = True, True
            t, a = divmod(int(k), A)
            if (not found) and brute:
                n_known += 1
                ctx.known_finding(K1, f'{what}: atom {a} frame {t} is {d[k, s]:.4f} A from site {s} (r={radii[s] * fac:.4f}) but PeriodicKDTree called directly misses the pair')
            else:
                n_bad += 1
                ctx.violation(f'{what}: {name} of atom {a} at frame {t} reported as none although site {s} is {d[k, s]:.5f} A away (radius {radii[s] * fac:.5f})', {**wit, 'atom': a, 'frame': t, 'position': flat[k], 'site': s, 'distance': d[k, s]})
        if len(miss) > MAX_CLASSIFY:
            n_bad += 1
            ctx.violation(f'{what}: {len(miss)} atom-frames reported as no {name} although a site is within its radius', wit)
        for k in wrong[:3]:
            t, a = divmod(int(k), A)
            s = int(arr[k])
            n_bad += 1
            dd = d[k, s] if 0 <= s < S else float('nan')
            ctx.violation(f'{what}: {name} of atom {a} at frame {t} reported as {s}, which is {dd:.5f} A away (radius {radii[s] * fac if 0 <= s < S else float("nan"):.5f}); nearest site {int(np.argmin(d[k]))} at {d[k].min():.5f}', {**wit, 'atom': a, 'frame': t, 'position': flat[k], 'reported': s, 'distances': d[k]})
    if disjoint:
        st = np.asarray(states).reshape(-1)
        inn = np.asarray(inner).reshape(-1)
        bad = np.nonzero((inn != -1) & (inn != st))[0]
        # an inner site other than the outer site can only be explained by a K1 miss of the outer pair
        for k in bad[:3]:
            t, a = divmod(int(k), A)
            if st[k] == -1 and n_known:
                continue
            n_bad += 1
            ctx.violation(f'{what}: inner site {inn[k]} of atom {a} at frame {t} is neither none nor its outer site {st[k]}', wit)
        ctx.decided(len(st))
    st2 = np.asarray(states).reshape(-1)
    ok_idx = np.nonzero((st2 >= 0) & (st2 < S))[0]
    via = int(np.sum(np.any(img[ok_idx, st2[ok_idx]] != 0, axis=1))) if len(ok_idx) else 0
    return n_bad, n_known, via


def run_auto_small(unit, rng, ctx):
    """Automatic radius in the vibration-limited regime: the sites are chosen AFTER the trajectory
    (the vibration amplitude depends only on the trajectory), at a distance of about the expected
    radius 2*vib from the points the atoms jitter around, so that many atom-frames lie just inside
    and just outside the sphere."""
    from gemdat.metrics import TrajectoryMetrics
    from pymatgen.core import Structure

    kind, rot, m = geom.random_lattice(rng, lo=6.0, hi=11.0)
    inv = np.linalg.inv(m)
    nanch = int(rng.integers(3, 6))
    anchors = geom.separated_points(rng, m, nanch, 2.6, face_prob=0.3)
    if anchors is None:
        raise Skip('anchors')
    nA = int(rng.integers(1, nanch))
    T = int(rng.integers(40, 90))
    at = np.empty((T, nA), dtype=int)
    cur = list(rng.permutation(nanch)[:nA])
    for t in range(T):
        if t and rng.uniform() < 0.04:
            a = int(rng.integers(nA))
            freea = [x for x in range(nanch) if x not in cur]
            if freea:
                cur[a] = int(freea[int(rng.integers(len(freea)))])
        at[t] = cur
    if np.all(at == at[0]):
        at[T // 2 :, 0] = [x for x in range(nanch) if x not in at[0]][0] if nanch > nA else at[0, 0]
    sig = rng.uniform(0.03, 0.15, size=(1, nA, 1))
    li = np.mod(anchors[at] + (rng.normal(size=(T, nA, 3)) * sig) @ inv, 1)
    fw = np.mod(rng.uniform(0, 1, size=(1, 2, 3)) + rng.normal(scale=0.005, size=(T, 2, 3)), 1)
    traj = gen.make_trajectory(m, gen.species_objects(['Li'] * nA + ['S', 'P'], rng=rng), np.concatenate([li, fw], axis=1), time_step=2e-15)
    vib = float(TrajectoryMetrics(traj.filter('Li')).vibration_amplitude())
    r0 = 2 * vib
    site_frac = np.mod(anchors + (gen.random_unit_vectors(rng, nanch) * (r0 * rng.uniform(0.6, 1.3, size=(nanch, 1)))) @ inv, 1)
    if rng.uniform() < 0.4:
        # a site listed twice (the same position, or the same position one lattice vector away: a face site given
        # at x = 0 and at x = 1): the spheres coincide, no non-overlapping radius exists
        dup = site_frac[int(rng.integers(nanch))].copy()
        if rng.integers(2):
            dup[int(rng.integers(3))] += float(rng.choice([-1.0, 1.0]))
        site_frac = np.vstack([site_frac, dup])
        nanch += 1
        ctx.count('site_sets_listing_a_position_twice')
    dmin = float(np.min(geom.min_image(m, site_frac, site_frac)[np.triu_indices(nanch, 1)]))
    if dmin < 2 * r0:
        r_exp = 0.5 * dmin - 0.005
        ctx.count('auto_radius_geometry_limited')
    else:
        r_exp = r0
        ctx.count('auto_radius_vibration_limited')
    f = float(rng.choice([1.0, 0.5]))
    sites = Structure(lattice=traj.get_lattice(), species=['Li'] * nanch, coords=site_frac, labels=['A'] * nanch)
    what = f'{kind}{"/rot" if rot else ""} mode=auto_small f={f} sites={nanch} vib={vib:.4f}'
    wit = {'matrix': m, 'site_frac': site_frac, 'expected_auto_radius': r_exp, 'd_min': dmin, 'inner_fraction': f}
    _seen['auto_radius'] = None
    try:
        with warnings.catch_warnings():
            warnings.simplefilter('ignore')
            tr = traj.transitions_between_sites(sites=sites, floating_specie='Li', site_radius=None, site_inner_fraction=f)
    except ValueError as exc:
        if 'need at least one array' in str(exc):
            ctx.count('static_history_no_events')
            ctx.case(None, False)
            return
        if 'too close' in str(exc) and dmin < 0.5 + 0.011 and dmin < 2 * r0:
            # documented refusal: sites closer than 0.5 A with a geometry-limited radius
            ctx.count('auto_radius_sites_too_close_error')
            ctx.case(None, False)
            return
        ctx.check(False, f'{what}: transitions_between_sites raised ValueError: {exc}', {**wit, 'traceback': traceback.format_exc()[-1200:]})
        ctx.case(None, False)
        return
    states, inner = np.asarray(tr.states), np.asarray(tr.inner_states)
    ctx.check(2 * r_exp < dmin, f'{what}: expected automatic radius {r_exp} overlaps (d_min={dmin})', wit)
    if _seen['auto_radius'] is not None:
        ctx.check(2 * _seen['auto_radius'] < dmin and abs(_seen['auto_radius'] - r_exp) <= 1e-9, f'{what}: automatic radius used by the code is {_seen["auto_radius"]!r}; min(2*vib, d_min/2-0.005) = {r_exp!r}', wit)
        ctx.count('auto_radius_observed_at_hook')
    radii = np.full(nanch, r_exp)
    n_bad, n_known, via = check_assignment(ctx, what, m, li, site_frac, radii, f, states, inner, True, float(r_exp), wit)
    d = geom.min_image(m, li.reshape(-1, 3), site_frac).min(axis=1)
    ctx.count('auto_small_atom_frames_within_5pct_of_radius', int(np.sum(np.abs(d - r_exp) < 0.05 * r_exp)))
    ctx.count('atom_frames_checked', states.size)
    ctx.count('assigned_through_lattice_image', via)
    ctx.count('atom_frames_at_a_site', int((states >= 0).sum()))
    ctx.count('mode:auto_small')
    ctx.count(f'lattice:{kind}')
    ctx.case(signature(m, site_frac, li), via > 0 or bool((states >= 0).any() and (states < 0).any()), sample={'lattice': kind, 'mode': 'auto_small', 'vibration_amplitude': vib, 'expected_radius': r_exp, 'd_min': dmin, 'T': T, 'atoms': nA})


def run_many(unit, rng, ctx):
    """Large index ranges: more than 255 sites and / or atoms."""
    ns = int(rng.choice([300, 1100, 2100]))
    na = int(rng.integers(258, 300)) if rng.integers(2) else int(rng.integers(1, 4))
    f = float(rng.choice([1.0, 0.5]))
    sys_ = gen.make_many_site_system(rng, ns, n_atoms=na, T=8 if na > 200 else 30, inner_fraction=f, p_move=0.4)
    traj = sys_.trajectory()
    what = f'{sys_.kind} many-site system sites={ns} atoms={na} f={f}'
    wit = {'matrix': sys_.matrix, 'n_sites': ns, 'n_atoms': na}
    with warnings.catch_warnings():
        warnings.simplefilter('ignore')
        tr = traj.transitions_between_sites(sites=sys_.sites_structure(), floating_specie='Li', site_radius=sys_.site_radius_arg, site_inner_fraction=f)
    pos = np.mod(sys_.coords[:, :na], 1)
    pos[pos == 1] = 0
    n_bad, n_known, via = check_assignment(ctx, what, sys_.matrix, pos, sys_.site_frac, sys_.radii, f, np.asarray(tr.states), np.asarray(tr.inner_states), True, float(sys_.radii.max()), wit)
    if n_bad == 0 and n_known == 0:
        ctx.check(np.array_equal(tr.states, sys_.states_true) and np.array_equal(tr.inner_states, sys_.inner_true), f'{what}: margin-controlled atoms are not assigned to the sites they were placed in', wit)
    ctx.count('many_site_or_many_atom_systems')
    ctx.count('atom_frames_checked', int(np.asarray(tr.states).size))
    ctx.count('assigned_through_lattice_image', via)
    ctx.case(signature(sys_.matrix, sys_.site_frac[:50], pos), via > 0, sample={'mode': 'many', 'sites': ns, 'atoms': na, 'inner_fraction': f, 'lattice': sys_.kind})


def run_single_site(unit, rng, ctx):
    """A site set with ONE site per cell (its nearest neighbours are its own periodic images)."""
    from pymatgen.core import Lattice, Structure

    kind, rot, m = geom.random_lattice(rng, lo=4.0, hi=8.0)
    inv = np.linalg.inv(m)
    w = geom.perp_widths(m).min()
    site = rng.uniform(0, 1, size=(1, 3)) if rng.integers(2) else np.array([[0.0, 0.0, float(rng.choice([0.0, 0.5]))]])
    R = float(rng.uniform(0.15, 0.4) * w)
    f = float(rng.choice([1.0, 0.5]))
    T, nLi = int(rng.integers(8, 40)), int(rng.integers(1, 4))
    # margin-controlled: inside 0.9 fR / between 1.1 fR and 0.9 R / outside 1.1 R (and below w/2: nearest image unique)
    zone = rng.integers(3, size=(T, nLi))
    rad = np.where(zone == 0, rng.uniform(0, 0.9 * f * R, size=(T, nLi)), np.where(zone == 1, rng.uniform(min(1.1 * f, 0.95) * R, 0.95 * R, size=(T, nLi)) if f < 0.85 else rng.uniform(0, 0.9 * R, size=(T, nLi)), rng.uniform(1.1 * R, max(1.1 * R + 1e-3, 0.49 * w), size=(T, nLi))))
    pos = np.mod(site[None, :, :] + (gen.random_unit_vectors(rng, T * nLi).reshape(T, nLi, 3) * rad[..., None]) @ inv, 1)
    pos[pos == 1] = 0
    coords = np.concatenate([pos, np.full((T, 1, 3), 0.37)], axis=1)
    traj = gen.make_trajectory(m, gen.species_objects(['Li'] * nLi + ['S'], rng=rng), coords)
    sites = Structure(lattice=Lattice(m), species=['Li'], coords=site, labels=['A'])
    what = f'{kind}{"/rot" if rot else ""} single site R={R:.3f} f={f}'
    wit = {'matrix': m, 'site_frac': site, 'site_radius': R, 'inner_fraction': f}
    arg = {'A': R} if rng.integers(2) else R
    with warnings.catch_warnings():
        warnings.simplefilter('ignore')
        try:
            tr = traj.transitions_between_sites(sites=sites, floating_specie='Li', site_radius=arg, site_inner_fraction=f)
        except ValueError as exc:
            if 'need at least one array' in str(exc):
                ctx.count('static_history_no_events')
                tr = None
            else:
                raise
        if tr is not None:
            check_assignment(ctx, what, m, pos, site, np.array([R]), f, np.asarray(tr.states), np.asarray(tr.inner_states), True, R, wit, None)
        # automatic radius: the closest neighbours of the site are its own periodic images
        _seen['auto_radius'] = None
        try:
            tr_a = traj.transitions_between_sites(sites=sites, floating_specie='Li')
        except ValueError as exc:
            ctx.decided()
            if 'zero-size array' in str(exc) and 'minimum' in str(exc):
                ctx.known_finding(K9, f'{what}: automatic site radius for a site set with one site per cell raised ValueError: {exc}')
            elif 'need at least one array' in str(exc):
                ctx.count('static_history_no_events')
            else:
                ctx.violation(f'{what}: automatic radius with a single site raised ValueError: {exc}', {**wit, 'traceback': traceback.format_exc()[-1200:]})
        else:
            r_a = _seen['auto_radius']
            # the spheres of the site and of its periodic images must not overlap
            dself = float(np.min([np.linalg.norm(np.array(v) @ m) for v in np.ndindex(3, 3, 3) if v != (1, 1, 1)] or [np.inf]))
            if r_a is not None:
                shortest = min(float(np.linalg.norm((np.array(v) - 1) @ m)) for v in np.ndindex(3, 3, 3) if v != (1, 1, 1))
                ctx.check(2 * r_a < shortest + 1e-9, f'{what}: automatic radius {r_a} makes the sphere of the site overlap with its own periodic image ({shortest} away)', wit)
                check_assignment(ctx, what + ' [automatic radius]', m, pos, site, np.array([r_a]), 1.0, np.asarray(tr_a.states), np.asarray(tr_a.inner_states), True, r_a, wit, None)
            del dself
    ctx.count('single_site_cases')
    ctx.case(signature(m, site, pos), tr is not None, sample={'lattice': kind, 'single_site': site, 'radius': R, 'inner_fraction': f, 'T': T})


def run_large_radius(unit, rng, ctx):
    """A cell with one short edge and site radii LARGER than half of it (the sphere reaches across the cell into its
    own periodic image; the assignment is still defined by the minimum-image distance)."""
    from pymatgen.core import Lattice, Structure

    a = float(rng.uniform(3.0, 3.6))
    b, c = (float(x) for x in rng.uniform(10.0, 12.0, size=2))
    ax = int(rng.integers(3))
    lens = [b, c, b]
    lens[ax] = a
    lens[(ax + 1) % 3], lens[(ax + 2) % 3] = b, c
    ang = [90.0, 90.0, 90.0]
    if rng.integers(2):
        ang[ax] = float(rng.choice([80.0, 100.0]))  # the angle between the two long edges
    m = geom.matrix_from_parameters(*lens, *ang)
    rot = bool(rng.integers(2))
    if rot:
        m = m @ geom.random_rotation(rng).T
    inv = np.linalg.inv(m)
    R = float(rng.uniform(0.52, 0.68) * a)
    f = float(rng.choice([1.0, 0.97]))
    S = int(rng.integers(1, 3))
    site = np.zeros((S, 3))
    site[:, ax] = rng.uniform(0, 1, size=S)
    site[:, (ax + 1) % 3] = (np.array([0.2, 0.7])[:S] + rng.uniform(-0.03, 0.03, size=S)) % 1
    site[:, (ax + 2) % 3] = rng.uniform(0, 1, size=S)
    dss = geom.min_image(m, site, site)
    if S == 2 and dss[0, 1] < 2 * R + 0.5:
        raise Skip('sites too close for the large radius')
    T, nLi = int(rng.integers(8, 30)), int(rng.integers(1, 4))
    which = rng.integers(S, size=(T, nLi))
    rad = rng.uniform(0, 1.35 * R, size=(T, nLi))
    pos = np.mod(site[which] + (gen.random_unit_vectors(rng, T * nLi).reshape(T, nLi, 3) * rad[..., None]) @ inv, 1)
    pos[pos == 1] = 0
    labels = ['A', 'B'][:S]
    arg = {lb: R for lb in labels} if rng.integers(2) else R
    traj = gen.make_trajectory(m, gen.species_objects(['Li'] * nLi + ['S'], rng=rng), np.concatenate([pos, np.full((T, 1, 3), 0.41)], axis=1))
    sites = Structure(lattice=Lattice(m), species=['Li'] * S, coords=site, labels=labels)
    what = f'short edge {a:.2f} A (axis {ax}){"/rot" if rot else ""} sites={S} R={R:.3f} (> half the short edge) f={f}'
    wit = {'matrix': m, 'site_frac': site, 'site_radius': arg, 'inner_fraction': f}
    with warnings.catch_warnings():
        warnings.simplefilter('ignore')
        try:
            tr = traj.transitions_between_sites(sites=sites, floating_specie='Li', site_radius=arg, site_inner_fraction=f)
        except ValueError as exc:
            if 'need at least one array' in str(exc):
                ctx.count('static_history_no_events')
                ctx.case(None, False)
                return
            raise
    dmin = geom.min_image(m, pos.reshape(-1, 3), site)
    beyond = int(np.sum((dmin.min(axis=1) > 0.5 * a) & (dmin.min(axis=1) < R - BAND)))
    check_assignment(ctx, what, m, pos, site, np.full(S, R), f, np.asarray(tr.states), np.asarray(tr.inner_states), True, R, wit, labels if isinstance(arg, dict) else None)
    ctx.count('large_radius_cases')
    ctx.count('atom_frames_inside_a_site_but_farther_than_half_the_short_edge', beyond)
    ctx.case(signature(m, site, pos), beyond > 0, sample={'short_edge': a, 'radius': R, 'inner_fraction': f, 'sites': S, 'atom_frames_beyond_half_edge': beyond})


def run_unit(unit, rng, ctx):
    if unit['i'] % 60 == 59:
        return run_many(unit, rng, ctx)
    if unit['i'] % 60 in (14, 44):
        return run_large_radius(unit, rng, ctx)
    if unit['i'] % 60 == 29:
        return run_single_site(unit, rng, ctx)
    mode = str(rng.choice(['float', 'dict', 'auto', 'overlap', 'auto_small'], p=[0.33, 0.33, 0.14, 0.1, 0.1]))
    if mode == 'auto_small':
        return run_auto_small(unit, rng, ctx)
    margin = 0.04
    if mode in ('float', 'dict'):
        sys_ = gen.make_site_system(rng, radius_mode=mode, margin=margin, T=int(rng.integers(6, 40)), n_atoms=None)
        radii, f, arg = sys_.radii, sys_.inner_fraction, sys_.site_radius_arg
        disjoint = True
        exact_history = True
        if mode == 'dict' and len(arg) >= 2 and rng.uniform() < 0.35:
            # the dict names only some of the labels (sites of an unnamed label have no radius: never assigned),
            # and / or gives every named label the same radius
            arg = dict(arg)
            radii = np.array(radii, dtype=float)
            if rng.integers(2):
                rmin = float(min(arg.values()))
                arg = {k_: rmin for k_ in arg}
                radii[:] = rmin
                ctx.count('radius_dicts_with_equal_values')
            if rng.integers(2):
                gone = list(arg)[int(rng.integers(len(arg)))]
                del arg[gone]
                radii[np.array(sys_.labels) == gone] = 0.0
                ctx.count('radius_dicts_not_naming_every_label')
            exact_history = False
    elif mode == 'overlap':
        sys_ = gen.make_site_system(rng, radius_mode='float', margin=margin, T=int(rng.integers(6, 30)), inner_fraction=float(rng.choice([1.0, 0.5])))
        dmin = np.min(geom.min_image(sys_.matrix, sys_.site_frac, sys_.site_frac)[np.triu_indices(len(sys_.site_frac), 1)])
        r = float(rng.uniform(0.55, 0.9) * dmin)
        r = min(r, 0.45 * geom.perp_widths(sys_.matrix).min())
        radii, f, arg = np.full(len(sys_.site_frac), r), sys_.inner_fraction, r
        disjoint = False
    else:
        sys_ = gen.make_site_system(rng, radius_mode='float', margin=margin, T=int(rng.integers(20, 60)), inner_fraction=float(rng.choice([1.0, 0.5])), n_labels=1)
        radii, f, arg = None, sys_.inner_fraction, None
        disjoint = True
    m = sys_.matrix
    T = sys_.coords.shape[0]
    nA = sys_.n_floating
    # free random atoms (+ for auto mode: atoms just inside / outside the geometry-limited radius)
    n_free = int(rng.integers(1, 4))
    free = rng.uniform(0, 1, size=(T, n_free, 3))
    if mode in ('float', 'dict') and unit['i'] % 8 == 0:
        HH = np.array(gen.HOSTILE)
        free = np.where(rng.uniform(size=free.shape) < 0.3, np.mod(HH[rng.integers(len(HH), size=free.shape)], 1), free)
    S = len(sys_.site_frac)
    dsite = geom.min_image(m, sys_.site_frac, sys_.site_frac)
    dmin = float(np.min(dsite[np.triu_indices(S, 1)]))
    li = sys_.coords[:, :nA]
    if mode == 'auto':
        r_geo = 0.5 * dmin - 0.005
        inv = np.linalg.inv(m)
        shell = np.empty((T, 2, 3))
        for t in range(T):
            for j, rr in enumerate((r_geo - 0.004, r_geo + 0.004)):
                s = int(rng.integers(S))
                shell[t, j] = np.mod(sys_.site_frac[s] + (gen.random_unit_vectors(rng, 1)[0] * rr) @ inv, 1)
        # large-amplitude walkers make 2*vib exceed the geometric limit in part of the cases
        free = np.concatenate([free, shell], axis=1)
    li_all = np.concatenate([li, free], axis=1)
    nLi = li_all.shape[1]
    coords = np.concatenate([li_all, sys_.coords[:, nA:]], axis=1)
    names = ['Li'] * nLi + sys_.species_names[nA:]
    traj = gen.make_trajectory(m, gen.species_objects(names, rng=rng), coords, time_step=sys_.time_step)
    sites = sys_.sites_structure()
    if unit['i'] % 3 == 0:
        # the site set comes from a reference structure whose cell differs from the simulation cell
        # (same fractional coordinates); distances are those of the SIMULATION cell
        from pymatgen.core import Lattice, Structure

        fac = float(rng.choice([0.9, 1.04, 1.5]))
        sites = Structure(lattice=Lattice(m * fac), species=['Li'] * S, coords=sys_.site_frac, labels=list(sys_.labels))
        ctx.count('sites_given_in_a_different_cell')
    what = f'{sys_.kind}{"/rot" if sys_.rotated else ""} mode={mode} f={f} sites={S} labels={sys_.labels}'
    wit = {'matrix': m, 'site_frac': sys_.site_frac, 'labels': sys_.labels, 'site_radius': arg, 'inner_fraction': f}
    _seen['radius'] = None
    _seen['auto_radius'] = None
    arg_before = snap.freeze(arg)
    sites_before = snap.structure_content(sites)
    traj_before = snap.traj_content(traj)
    try:
        with warnings.catch_warnings():
            warnings.simplefilter('ignore')
            if unit['i'] % 2:
                # the other public entry point
                from gemdat.transitions import Transitions

                tr = Transitions.from_trajectory(trajectory=traj, sites=sites, floating_specie='Li', site_radius=arg, site_inner_fraction=f)
                ctx.count('via_Transitions.from_trajectory')
            else:
                tr = traj.transitions_between_sites(sites=sites, floating_specie='Li', site_radius=arg, site_inner_fraction=f)
    except ValueError as exc:
        if mode == 'auto' and 'too close' in str(exc) and dmin < 0.5 + 0.011:
            ctx.count('auto_radius_sites_too_close_error')
            ctx.case(None, False)
            return
        if 'need at least one array' in str(exc) or 'No ' in str(exc):
            # all-static history: no events (excluded by C03's statement) - states cannot be observed
            ctx.count('static_history_no_events')
            ctx.case(None, False)
            return
        ctx.check(False, f'{what}: transitions_between_sites raised ValueError: {exc}', {**wit, 'traceback': traceback.format_exc()[-1200:]})
        ctx.case(None, False)
        return
    states = np.asarray(tr.states)
    inner = np.asarray(tr.inner_states)
    if states.shape != (T, nLi):
        ctx.check(False, f'{what}: states has shape {states.shape}, expected {(T, nLi)}', wit)
        ctx.case(None, False)
        return
    pos = np.mod(li_all, 1)
    pos[pos == 1] = 0
    if mode == 'auto':
        from gemdat.metrics import TrajectoryMetrics

        vib = float(TrajectoryMetrics(traj.filter('Li')).vibration_amplitude())
        r_exp = 2 * vib
        if dmin < 2 * r_exp:
            r_exp = 0.5 * dmin - 0.005
            ctx.count('auto_radius_geometry_limited')
        else:
            ctx.count('auto_radius_vibration_limited')
        radii = np.full(S, r_exp)
        wit['expected_auto_radius'] = r_exp
        wit['d_min'] = dmin
        ctx.check(2 * r_exp < dmin, f'{what}: expected automatic radius {r_exp} overlaps (d_min={dmin})', wit)
        if _seen['auto_radius'] is not None:
            ctx.check(2 * _seen['auto_radius'] < dmin and abs(_seen['auto_radius'] - r_exp) <= 1e-9, f'{what}: automatic radius used by the code is {_seen["auto_radius"]!r}; min(2*vib, d_min/2-0.005) = {r_exp!r}, d_min = {dmin!r}', wit)
            ctx.count('auto_radius_observed_at_hook')
    cutoff = float(np.max(radii))
    groups = sys_.labels if isinstance(arg, dict) else None
    n_bad, n_known, via = check_assignment(ctx, what, m, pos, sys_.site_frac, radii, f, states, inner, disjoint, cutoff, wit, groups)
    if mode in ('float', 'dict') and n_bad == 0 and n_known == 0 and (mode != 'dict' or exact_history):
        # margin-controlled atoms: the intended history must be reproduced exactly
        ctx.check(np.array_equal(states[:, :nA], sys_.states_true) and np.array_equal(inner[:, :nA], sys_.inner_true), f'{what}: margin-controlled atoms are not assigned to the sites they were placed in', wit)
    # ---- history: the same argument objects are used again; nothing handed in may be modified ----
    if mode in ('float', 'dict', 'overlap'):
        ctx.check(snap.same(arg_before, snap.freeze(arg)), f'{what}: the site_radius argument was modified by the call: {arg_before} -> {arg}', wit)
        ctx.check(snap.same(sites_before, snap.structure_content(sites)), f'{what}: the sites structure was modified by the call', wit)
        ctx.check(snap.diff_traj_content(traj_before, snap.traj_content(traj)) is None, f'{what}: the trajectory was modified by the call: {snap.diff_traj_content(traj_before, snap.traj_content(traj))}', wit)
        if unit['i'] % 2 == 0:
            if rng.integers(2):
                _ = traj.displacements  # leave the source in the other representation
            with warnings.catch_warnings():
                warnings.simplefilter('ignore')
                tr2 = traj.transitions_between_sites(sites=sites, floating_specie='Li', site_radius=arg, site_inner_fraction=f)
            nb2, nk2, _ = check_assignment(ctx, what + ' [second call, same argument objects]', m, pos, sys_.site_frac, radii, f, np.asarray(tr2.states), np.asarray(tr2.inner_states), disjoint, cutoff, wit, groups)
            if n_known == 0 and nk2 == 0:
                ctx.check(np.array_equal(tr2.states, states) and np.array_equal(tr2.inner_states, inner), f'{what}: a second call with the same argument objects gives different states', wit)
            ctx.count('second_calls_with_same_arguments')
        if unit['i'] % 3 == 1 and mode in ('float', 'dict'):
            # ... and a further call on the same trajectory and the same sites object with OTHER settings
            # (smaller radius, other inner fraction) answers for those settings
            q = float(rng.choice([0.6, 0.8]))
            arg3 = {k_: v_ * q for k_, v_ in arg.items()} if isinstance(arg, dict) else float(arg) * q
            f3 = float(rng.choice([x for x in (1.0, 0.7, 0.4) if x != f]))
            with warnings.catch_warnings():
                warnings.simplefilter('ignore')
                try:
                    tr3 = traj.transitions_between_sites(sites=sites, floating_specie='Li', site_radius=arg3, site_inner_fraction=f3)
                except ValueError as exc:
                    tr3 = None
                    if not ('need at least one array' in str(exc) or 'No ' in str(exc)):
                        ctx.check(False, f'{what}: a further call with site_radius x{q}, inner fraction {f3} raised ValueError: {exc}', wit)
            if tr3 is not None:
                check_assignment(ctx, what + f' [further call on the same objects: radius x{q}, inner fraction {f3}]', m, pos, sys_.site_frac, radii * q, f3, np.asarray(tr3.states), np.asarray(tr3.inner_states), disjoint, cutoff * q, {**wit, 'site_radius': arg3, 'inner_fraction': f3}, groups)
                ctx.count('further_calls_with_other_settings_on_the_same_objects')
    ctx.count('atom_frames_checked', states.size)
    ctx.count(f'K1_atom_frames:{sys_.kind}', n_known)
    ctx.count('assigned_through_lattice_image', via)
    ctx.count('atom_frames_at_a_site', int((states >= 0).sum()))
    ctx.count(f'lattice:{sys_.kind}')
    ctx.count('rotated_cells', sys_.rotated)
    ctx.count(f'mode:{mode}')
    ctx.count(f'inner_fraction:{f}')
    visited = set(np.unique(states))
    ctx.count('cases_with_never_visited_site', any(s not in visited for s in range(S)))
    ctx.case(signature(m, sys_.site_frac, np.asarray(radii), pos), via > 0, sample={'lattice': sys_.kind, 'rotated': sys_.rotated, 'mode': mode, 'site_radius': arg, 'inner_fraction': f, 'labels': sys_.labels, 'site_frac': sys_.site_frac, 'T': T, 'floating_atoms': nLi, 'assigned_through_image': via})
