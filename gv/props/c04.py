"""C04 — jumps are exactly the changes of visited site; stricter settings only remove."""
from __future__ import annotations

import traceback
from collections import Counter

import numpy as np

from .. import gen, models
from ..core import signature
from ..monitor import Monitor
from . import c03

ID = 'C04'
LEVEL = 'exploration'
RULE = (
    'cases: (a) EXHAUSTIVE: every single-atom site history of length 2..Lmax over 3 sites + no-site with inner '
    'fraction 1 (default settings), and every (site, inner) history of length 2..Mmax with inner fraction 0.5, '
    'each realised geometrically, run through Trajectory.transitions_between_sites(...).jumps(minimal_residence=r) '
    'for r in {0,1,2,3,5}; (b) random multi-atom hop histories (long, with excursions to no-site, returns to the '
    'same site, direct hops).  Oracle: loop model "consecutive distinct visited sites" computed from the states '
    'the object reports; subset / state-consistency / monotonicity for stricter settings.  Non-trivial = the '
    'history has at least one default jump; distinct = SHA-1 of (states, inner, inner fraction).'
)
RULE += ' Added in rounds 6-10: the settings are queried in shuffled order on the same object; the same history with a chronological (instead of grouped-by-atom) event table must give the same jumps; framework atoms listed before / between the diffusing atoms. Round 13: the re-presented event table also with its named columns in another order. Round 16: row labels that restart for every atom (pd.concat of per-atom tables).'
ASSUMPTIONS = [
    "ValueError('No jumps found') is the API's encoding of the empty jump set (accepted iff allowed by the model)",
    'site states reported by Transitions are taken as given (their geometric correctness is C02)',
]
SITE_OPTS = [-1, 0, 1, 2]
LMAX = {'quick': 7, 'thorough': 10}
MMAX = {'quick': 5, 'thorough': 7}
CHUNK = 800
N_RANDOM = {'quick': 200, 'thorough': 20000}
RESIDENCES = [0, 1, 2, 3, 5]
BOUNDARY_T = {'quick': [127, 128, 129, 130, 255, 256, 257, 258, 32769], 'thorough': [126, 127, 128, 129, 130, 131, 254, 255, 256, 257, 258, 259, 32767, 32768, 32769, 32770, 65537]}
BUDGET_S = {'quick': 220, 'thorough': 3600}
COLS = ['atom index', 'start site', 'destination site', 'start time', 'stop time']

_mon = Monitor()


def exhaustive(tier):
    return {
        'complete': True,
        'default_settings_histories': sum(4**k for k in range(2, LMAX[tier] + 1)),
        'default_lengths': [2, LMAX[tier]],
        'inner_fraction_0.5_histories': sum(7**k for k in range(2, MMAX[tier] + 1)),
        'inner_lengths': [2, MMAX[tier]],
        'residences': RESIDENCES,
    }


def units(tier):
    out = []
    for L in range(2, LMAX[tier] + 1):
        n = 4**L
        for lo in range(0, n, CHUNK):
            out.append({'k': 'exh1', 'L': L, 'lo': lo, 'hi': min(n, lo + CHUNK)})
    for L in range(2, MMAX[tier] + 1):
        n = 7**L
        for lo in range(0, n, CHUNK):
            out.append({'k': 'exh5', 'L': L, 'lo': lo, 'hi': min(n, lo + CHUNK)})
    for i in range(N_RANDOM[tier]):
        out.append({'k': 'rand', 'i': i})
    # trajectory lengths around integer-width boundaries, with a hop on the very last frame step
    for T in BOUNDARY_T[tier]:
        out.append({'k': 'boundary', 'T': T})
    return out


def setup(ctx):
    import gemdat.jumps as gj

    _mon.attach(gj.Jumps, '__init__', label='Jumps.__init__')
    _mon.attach(gj, '_generic_transitions_to_jumps', optional=True, label='_generic_transitions_to_jumps (module attr)')


def teardown(ctx):
    _mon.flush_counts(ctx)
    _mon.detach_all()


def site_history(L, index):
    out = []
    for _ in range(L):
        out.append(SITE_OPTS[index % 4])
        index //= 4
    a = np.array(out)
    return a, a.copy()


def get_jumps(tr, residence, ctx, what):
    """rows of Jumps.data as tuples, [] for 'No jumps found', None on any other failure."""
    try:
        j = tr.jumps(minimal_residence=residence)
    except ValueError as exc:
        if 'No jumps found' in str(exc):
            ctx.count('no_jumps_found_raised')
            return []
        ctx.check(False, f'{what}: Transitions.jumps(minimal_residence={residence}) raised ValueError: {exc}', {'traceback': traceback.format_exc()[-1500:]})
        return None
    except Exception as exc:  # noqa: BLE001
        ctx.check(False, f'{what}: Transitions.jumps(minimal_residence={residence}) raised {type(exc).__name__}: {exc}', {'traceback': traceback.format_exc()[-1500:]})
        return None
    data = j.data
    miss = [c for c in COLS if c not in data.columns]
    if miss:
        ctx.check(False, f'{what}: Jumps.data lacks columns {miss}')
        return None
    rows = [tuple(int(x) for x in r) for r in data[COLS].to_numpy()]
    ctx.check(j.n_jumps == len(rows), f'{what}: n_jumps={j.n_jumps} != rows={len(rows)}')
    return rows


def check_jumps(tr, ctx, what, default_settings, residences=RESIDENCES, query_order=None):
    states = np.asarray(tr.states)
    # the settings are queried on the same Transitions object in the given order (default: ascending; callers
    # pass a shuffled or descending order for half of the cases), and judged in ascending order afterwards
    rows_by_r = {}
    for r in (query_order if query_order is not None else residences):
        rows_by_r[r] = get_jumps(tr, r, ctx, what)
    if query_order is not None and list(query_order) != list(residences):
        ctx.count('residence_settings_queried_out_of_order')
    dflt = models.default_jumps(states)
    cd = Counter(dflt)
    dkeys = Counter((a, o, d, s) for a, o, d, s, e in dflt)
    prev_keys = None
    prev_r = None
    n_reported = 0
    for r in residences:
        rows = rows_by_r[r]
        if rows is None:
            return
        n_reported += len(rows)
        cg = Counter(rows)
        if default_settings and r == 0:
            if cg != cd:
                missing = list((cd - cg).elements())[:3]
                extra = list((cg - cd).elements())[:3]
                a = (missing or extra)[0][0]
                ctx.check(False, f'{what}: default jumps differ from the visited-site sequence; missing={missing} spurious={extra} (atom,origin,dest,start,stop)', {'atom': a, 'states': states[:, a] if 0 <= a < states.shape[1] else None, 'rows_of_atom': [x for x in rows if x[0] == a]})
            else:
                ctx.decided()
        # subset of the default jumps on (atom, origin, destination, start), each at most once
        keys = Counter((a, o, d, s) for a, o, d, s, e in rows)
        bad = [k for k, n in keys.items() if n > dkeys.get(k, 0)]
        if bad:
            a = bad[0][0]
            ctx.check(False, f'{what}: residence={r}: reported jump {bad[0]} (atom,origin,dest,start) is not a default jump (or is duplicated)', {'states': states[:, a] if 0 <= a < states.shape[1] else None, 'inner': np.asarray(tr.inner_states)[:, a] if 0 <= a < states.shape[1] else None, 'rows_of_atom': [x for x in rows if x[0] == a]})
        else:
            ctx.decided()
        # consistency with the recorded states
        T = len(states)
        incons = None
        for a, o, d, s, e in rows:
            if not (0 <= s < e < T and 0 <= a < states.shape[1]):
                incons = (a, o, d, s, e, 'times out of range')
                break
            if states[s, a] != o or states[e, a] != d or o == d or o < 0 or d < 0:
                incons = (a, o, d, s, e, 'states at start/stop do not match origin/destination')
                break
            mid = states[s + 1 : e, a]
            if np.any((mid != -1) & (mid != d)):
                incons = (a, o, d, s, e, 'another site is visited between start and stop')
                break
        if incons:
            a = incons[0]
            ctx.check(False, f'{what}: residence={r}: jump {incons[:5]} inconsistent with states: {incons[5]}', {'states': states[:, a] if 0 <= a < states.shape[1] else None})
        else:
            ctx.decided()
        # monotonicity in the residence
        if prev_keys is not None:
            added = [k for k in keys if k not in prev_keys]
            if added:
                a = added[0][0]
                ctx.check(False, f'{what}: raising minimal_residence {prev_r}->{r} added jump {added[0]}', {'states': states[:, a], 'inner': np.asarray(tr.inner_states)[:, a]})
            else:
                ctx.decided()
        prev_keys, prev_r = keys, r
    ctx.count('jump_rows_checked', n_reported)
    ctx.count('default_jumps_in_model', len(dflt))


def run_unit(unit, rng, ctx):
    k = unit['k']
    if k in ('exh1', 'exh5'):
        L = unit['L']
        f = 1.0 if k == 'exh1' else 0.5
        hist = site_history if k == 'exh1' else c03.history
        hs = [hist(L, i) for i in range(unit['lo'], unit['hi'])]
        st_true = np.stack([h[0] for h in hs], axis=1)
        in_true = np.stack([h[1] for h in hs], axis=1)
        traj, st, R, _, kind, rot = c03.build(rng, st_true, in_true, f=f)
        has_change = bool(np.any(st_true[1:] != st_true[:-1]))
        try:
            tr = traj.transitions_between_sites(sites=st, floating_specie='Li', site_radius=R, site_inner_fraction=f)
        except Exception as exc:  # noqa: BLE001
            if has_change:
                ctx.check(False, f'{k} L={L}: building transitions raised {type(exc).__name__}: {exc}', {'traceback': traceback.format_exc()[-1500:]})
            ctx.case(None, False)
            return
        if not (np.array_equal(tr.states, st_true) and np.array_equal(tr.inner_states, in_true)):
            ctx.count('realised_states_differ_from_intended')
        default_settings = f == 1.0 and np.array_equal(tr.states, tr.inner_states)
        check_jumps(tr, ctx, f'{k} L={L} {kind}', default_settings, query_order=(list(rng.permutation(RESIDENCES)) if (unit['lo'] // 60) % 2 else None))
        states = np.asarray(tr.states)
        for j in range(states.shape[1]):
            dj = models.default_jumps(states[:, j : j + 1])
            ctx.case(signature(states[:, j], np.asarray(tr.inner_states)[:, j], f), bool(dj), sample={'kind': k, 'states': states[:, j], 'inner': np.asarray(tr.inner_states)[:, j], 'default_jumps(atom,o,d,start,stop)': dj} if dj else None)
            ctx.count('histories_with_return_to_same_site', _has_return(states[:, j]))
        return
    big = ctx.tier == 'thorough' and unit.get('i', 1) % 10 == 0
    T = int(rng.integers(150, 1200)) if big else int(rng.integers(3, 90))
    f = float(rng.choice([1.0, 1.0, 0.5, 0.3]))
    if k == 'boundary':
        T = int(unit['T'])
        f = 1.0
        ctx.count('boundary_length_histories')
    sys_ = gen.make_site_system(rng, tail_last_frame_hop=(k == 'boundary'), T=T, n_atoms=int(rng.integers(1, 5)), n_sites=int(rng.integers(4, 9)), inner_fraction=f, margin=0.04, p_move=0.01 if T > 2000 else float(rng.choice([0.1, 0.3, 0.6])))
    has_change = bool(np.any(sys_.states_true[1:] != sys_.states_true[:-1]))
    try:
        tr = sys_.transitions()
    except Exception as exc:  # noqa: BLE001
        if has_change:
            ctx.check(False, f'rand: building transitions raised {type(exc).__name__}: {exc}', {'traceback': traceback.format_exc()[-1500:]})
        ctx.case(None, False)
        return
    default_settings = f == 1.0 and np.array_equal(tr.states, tr.inner_states)
    res = [0, int(rng.integers(1, 4)), int(rng.integers(4, 12))]
    check_jumps(tr, ctx, f'rand {sys_.kind} T={T} f={f}', default_settings, residences=res, query_order=([res[i] for i in rng.permutation(3)] if rng.integers(2) else None))
    # the same history with its event table in another row order (chronological instead of grouped by atom,
    # shuffled; row labels kept): jumps are a property of the history, not of the row order
    if len(tr.events) >= 2 and unit.get('i', 0) % 2 == 0:
        from gemdat.transitions import Transitions

        ev = tr.events
        how = str(rng.choice(['by_time', 'by_time_fresh_labels', 'shuffled', 'per_atom_labels']))
        ev2 = ev.sort_values(['time', 'atom index'], kind='stable') if how != 'shuffled' else ev.sample(frac=1.0, random_state=int(rng.integers(2**31)))
        if how == 'per_atom_labels':
            # the same rows in the same order, assembled per atom with pd.concat: the row labels restart at 0 for every atom
            import pandas as pd

            ev2 = pd.concat([g_.reset_index(drop=True) for _, g_ in ev.groupby('atom index', sort=False)])
        if how == 'by_time_fresh_labels':
            ev2 = ev2.reset_index(drop=True)
        if rng.integers(2):
            # the same named columns in another order (set_index / reset_index, a hand-built table): columns are named
            ev2 = ev2[[str(c_) for c_ in rng.permutation(list(ev2.columns))]]
            how += '+columns_permuted'
        if not how.startswith('shuffled'):
            tr2 = Transitions(trajectory=tr.trajectory, diff_trajectory=tr.diff_trajectory, sites=tr.sites, events=ev2, states=np.asarray(tr.states).copy(), inner_states=np.asarray(tr.inner_states).copy())
            for r_ in res:
                a_, b_ = get_jumps(tr, r_, ctx, 'reference'), get_jumps(tr2, r_, ctx, f'rand {sys_.kind} T={T} f={f} [event table {how}]')
                if a_ is not None and b_ is not None:
                    ctx.check(Counter(a_) == Counter(b_), f'rand {sys_.kind} T={T} f={f}: residence={r_}: the jumps of the same history differ when its event table is ordered {how}: only grouped-by-atom {list((Counter(a_) - Counter(b_)).elements())[:3]}, only {how} {list((Counter(b_) - Counter(a_)).elements())[:3]}', {'states': np.asarray(tr.states)[:, :3]})
            ctx.count(f'event_table_presentation:{how}')
    states = np.asarray(tr.states)
    dj = models.default_jumps(states)
    ctx.count('long_transit_default_jumps', sum(1 for j in dj if j[4] - j[3] > 3))
    ctx.case(signature(states, np.asarray(tr.inner_states), f), bool(dj), sample={'kind': 'rand', 'lattice': sys_.kind, 'T': T, 'f': f, 'atoms': states.shape[1], 'n_default_jumps': len(dj), 'residences': res})


def _has_return(col):
    vis = [int(s) for s in col if s >= 0]
    seq = [int(s) for s in col]
    # leaves a site to no-site and comes back to the same site
    last = None
    away = False
    for s in seq:
        if s < 0:
            away = last is not None
        else:
            if away and s == last:
                return 1
            last = s
            away = False
    return 0
