"""C16 — trajectory caching is faithful and survives an interrupted cache write (fault enumeration)."""
from __future__ import annotations

import contextlib
import io
import os
import pickle
import shutil
import subprocess
import sys
import tempfile

import numpy as np

from .. import geom, synth_io
from ..core import signature, src_dir
from ..monitor import Monitor

ID = 'C16'
LEVEL = 'fault_enumeration'
RULE = (
    'cases: synthetic but valid vasprun.xml / LAMMPS data+xyz / GROMACS gro+xtc files are written for generated '
    'systems (half of them with coordinates outside the box: unwrapped atoms, atoms just beyond a face) into a scratch directory and parsed by the real loaders.  Faults injected into the cache file: EVERY '
    'byte-prefix (thorough; quick: every 5th prefix plus the first and last 24) = the state an interrupted '
    'non-atomic write leaves; empty file; random bytes; bit flips in header and body; pickles that fail to import '
    '(AttributeError / ModuleNotFoundError / ValueError paths); damage -> recover -> damage cycles; real crashes '
    '(child process killed with os._exit in the middle of pickle.dump).  After every fault the loader must return '
    'the trajectory of a fresh parse, leave a complete cache, and - as recorded by a sys.addaudithook open() log - '
    'have read the damaged cache, re-read the sources and rewritten the cache.  Loader argument sets that change '
    'the parse result must not share a default cache file.  Non-trivial = a fault that made the loader fall back; '
    'distinct = (loader, fault kind, prefix length / garbage bytes).'
)
RULE += ' Added in rounds 7-10: digit-shift and checksum-collision argument variants; foreign cache-like files (<stem>.cache of another load, stale .tmp) next to the sources.'
RULE += ' Round 12: to_cache / from_cache round trip of hand-built trajectories (unwrapped raw coordinates with values exactly 0, 1, -1, 2, 1-2^-53, in position form and in displacement form with whole-lattice-vector steps). Round 16: single-frame sources were added and switched off again (a worker crashed in third-party code, see DESIGN). Round 14: argument variants whose temperature differs by a fraction of a kelvin. Round 13: explicit cache paths with arbitrary suffixes (.v1/.v2, .0/.5, .pkl, none): files appear at exactly the requested paths and names differing in the last dotted part stay distinct.'
ASSUMPTIONS = [
    'synthetic loader inputs exercise the loaders\' control flow, not the variety of real simulation output',
    'garbage that happens to be a loadable pickle of some other object is outside the statement ("unreadable") and is skipped and counted',
    'constant-cell parsing only; file-permission faults are not injected (the checks run as root)',
]
N_CFG = {'quick': 12, 'thorough': 192}
BUDGET_S = {'quick': 230, 'thorough': 3600}
MIN_DECIDING = 50

_mon = Monitor()
_audit = {'armed': False, 'log': [], 'installed': False}


def units(tier):
    return [{'k': 'cfg', 'i': i} for i in range(N_CFG[tier])]


def _hook(event, args):
    if _audit['armed'] and event == 'open':
        try:
            path, mode, flags = args[0], args[1], args[2]
            if isinstance(path, (str, bytes, os.PathLike)):
                write = bool(flags & (os.O_WRONLY | os.O_RDWR)) if isinstance(flags, int) else ('w' in str(mode))
                _audit['log'].append((os.fspath(path) if not isinstance(path, bytes) else path.decode(), 'w' if write else 'r'))
        except Exception:  # noqa: BLE001
            pass


def setup(ctx):
    from gemdat import Trajectory

    if not _audit['installed']:
        sys.addaudithook(_hook)
        _audit['installed'] = True
    for nm in ('from_cache', 'to_cache', 'from_vasprun', 'from_lammps', 'from_gromacs'):
        _mon.attach(Trajectory, nm, label=f'Trajectory.{nm}')


def teardown(ctx):
    _mon.flush_counts(ctx)
    _mon.detach_all()


@contextlib.contextmanager
def audited():
    _audit['log'] = []
    _audit['armed'] = True
    try:
        yield _audit['log']
    finally:
        _audit['armed'] = False


def quiet(fn, *a, **k):
    buf = io.StringIO()
    with contextlib.redirect_stdout(buf):
        return fn(*a, **k), buf.getvalue()


def describe(t):
    """Canonical content of a trajectory (for equality)."""
    sp = getattr(t, 'site_properties', None)
    spc = None
    if isinstance(sp, dict):
        spc = {k: [getattr(x, 'resname', None) or str(x) for x in v] if k == 'residue' else list(v) for k, v in sp.items()}
    elif sp:
        spc = repr(sp)
    return {
        'type': type(t).__name__,
        'species': [str(s) for s in t.species],
        'coords': np.asarray(t.coords),
        'disp': bool(t.coords_are_displacement),
        'base': None if t.base_positions is None else np.asarray(t.base_positions),
        'lattice': np.asarray(t.lattice),
        'constant_lattice': t.constant_lattice,
        'time_step': t.time_step,
        'metadata': dict(t.metadata),
        'site_properties': spc,
    }


def same(a, b):
    if isinstance(a, Exception) or isinstance(b, Exception):
        return type(a) is type(b)
    da, db = describe(a), describe(b)
    for k in da:
        x, y = da[k], db[k]
        if isinstance(x, np.ndarray) or isinstance(y, np.ndarray):
            if x is None or y is None or x.shape != y.shape or not np.array_equal(x, y):
                return False
        elif x != y:
            return False
    return True


class Config:
    """One loader + argument set on freshly written synthetic files."""

    def __init__(self, rng, d, loader, single_frame=False):
        from gemdat import Trajectory

        self.T = Trajectory
        self.loader = loader
        self.d = d
        N = int(rng.integers(2, 6))
        T = int(rng.integers(3, 9))
        if single_frame:
            T = 1  # a source holding a single configuration (a relaxed structure, the first dump of a run)
        symbols = [str(x) for x in rng.choice(['Li', 'S', 'P', 'O'], size=N)]
        if 'Li' not in symbols:
            symbols[0] = 'Li'
        self.symbols = symbols
        frames = rng.uniform(0.05, 0.95, size=(1, N, 3)) + np.cumsum(rng.normal(scale=0.01, size=(T, N, 3)), axis=0)
        # half of the source files hold coordinates outside the box (unwrapped dumps, atoms just outside a face)
        self.outside = bool(rng.integers(2))
        if self.outside:
            frames = frames + rng.integers(-1, 2, size=(1, N, 3)) * (rng.uniform(size=(1, N, 3)) < 0.5)
            frames[:, 0, 0] = frames[:, 0, 0] - np.floor(frames[0, 0, 0]) - 0.0625 * (1 + np.arange(T) % 2)
        else:
            frames = np.mod(frames, 1)
        self.explicit_cache = bool(rng.integers(2))
        if loader == 'vasprun':
            _, _, m = geom.random_lattice(rng, lo=4.0, hi=8.0)
            self.src = [os.path.join(d, 'vasprun.xml')]
            synth_io.write_vasprun(self.src[0], m, symbols, frames, potim=float(rng.choice([1.0, 2.0])), tebeg=float(rng.integers(300, 900)))
            self.kw = {}
            if rng.integers(2):
                self.kw['ionic_step_skip'] = int(rng.integers(1, 3))
            if rng.integers(2):
                self.kw['exception_on_bad_xml'] = bool(rng.integers(2))
            self.call = lambda cache=None, **extra: Trajectory.from_vasprun(self.src[0], cache=cache, **{**self.kw, **extra})
            self.variants = [{'ionic_step_skip': 2 if self.kw.get('ionic_step_skip', 1) != 2 else 3}, {'ionic_step_skip': 2, 'ionic_step_offset': 1}]
        elif loader == 'lammps':
            lengths = rng.uniform(5, 9, size=3)
            cart = frames * lengths
            self.src = [os.path.join(d, 'dump.xyz'), os.path.join(d, 'data.txt')]
            numeric = bool(rng.integers(2))
            dual = numeric and bool(rng.integers(2))
            mapping = synth_io.write_lammps(self.src[1], self.src[0], lengths, symbols, cart, numeric_names=numeric, dual_format=dual)
            self.kw = {'temperature': float(rng.integers(300, 900)), 'time_step': float(rng.choice([1.0, 2.0]))}
            if rng.integers(2):
                # integer temperature, time step of two digits (so that moving a digit from one argument to the
                # next gives another valid argument set)
                self.kw = {'temperature': int(rng.integers(21, 99)), 'time_step': float(rng.choice([12.0, 25.0, 15.0]))}
            if numeric:
                self.kw['type_mapping'] = mapping
            self.call = lambda cache=None, **extra: Trajectory.from_lammps(coords_file=self.src[0], cache=cache, **{'data_file': self.src[1], **self.kw, **extra})
            self.variants = [{'temperature': self.kw['temperature'] + 100}, {'time_step': self.kw['time_step'] * 2}, {'constant_lattice': False}]
            # thermostat set points a fraction of a kelvin apart (300.25 / 300.75 K), time steps a per mille apart
            self.variants += [{'temperature': float(self.kw['temperature']) + 0.5}, {'temperature': float(self.kw['temperature']) + 0.25, 'time_step': self.kw['time_step'] * 1.001}]
            # argument sets whose serialised text differs by the byte pattern (+1, -2, +1) / (-1, +2, -1) on three
            # neighbouring digits (879 / 798, 320 / 401): position-weighted checksums (Adler, Fletcher) collide on them
            digs = [int(ch) for ch in str(int(self.kw['temperature']))]
            if len(digs) == 3:
                for sgn in (1, -1):
                    nd = [digs[0] + sgn, digs[1] - 2 * sgn, digs[2] + sgn]
                    if all(0 <= x_ <= 9 for x_ in nd) and nd[0] > 0:
                        self.variants.append({'temperature': type(self.kw['temperature'])(int(''.join(map(str, nd))))})
                        break
            if isinstance(self.kw['temperature'], int):
                # argument sets whose values, written one after the other, read the same: (71, 12.0) / (711, 2.0)
                T_, ts_ = str(self.kw['temperature']), str(self.kw['time_step'])
                self.variants.append({'temperature': int(T_ + ts_[0]), 'time_step': float(ts_[1:])})
                if T_[1] != '0':
                    # ... and (".../data.txt", 71) / (".../data.txt7", 1)
                    import shutil

                    twin = self.src[1] + T_[0]
                    shutil.copy(self.src[1], twin)
                    self.variants.append({'data_file': twin, 'temperature': int(T_[1:])})
            # a data file with the same base name in another directory (other box): a different source
            os.makedirs(os.path.join(d, 'relaxed'), exist_ok=True)
            alt = os.path.join(d, 'relaxed', 'data.txt')
            synth_io.write_lammps(alt, os.path.join(d, 'relaxed', 'unused.xyz'), lengths * 1.01, symbols, cart, numeric_names=numeric)
            self.variants.append({'data_file': alt})
            if dual:
                # the same files read with another coordinate format (the dump is valid as XYZ and as Tinker TXYZ)
                self.variants.append({'coords_format': 'txyz'})
            if numeric:
                other = dict(mapping)
                keys = sorted(other)
                other[keys[0]] = 'Na' if other[keys[0]] != 'Na' else 'K'
                self.variants.append({'type_mapping': other})
        else:
            lengths = rng.uniform(5, 9, size=3)
            cart = frames * lengths
            self.src = [os.path.join(d, 'traj.xtc'), os.path.join(d, 'top.gro')]
            synth_io.write_gromacs(self.src[1], self.src[0], lengths, symbols, cart, dt_ps=float(rng.choice([1.0, 2.0])))
            self.kw = {'temperature': float(rng.integers(300, 900))}
            self.call = lambda cache=None, **extra: Trajectory.from_gromacs(coords_file=self.src[0], cache=cache, **{'topology_file': self.src[1], **self.kw, **extra})
            self.variants = [{'temperature': self.kw['temperature'] + 50}, {'temperature': self.kw['temperature'] + 0.5}, {'temperature': self.kw['temperature'] + 0.25}]
            # a topology with the same base name in another directory (other atom names)
            os.makedirs(os.path.join(d, 'other'), exist_ok=True)
            alt_sym = ['Na' if x == 'Li' else x for x in symbols]
            synth_io.write_gromacs(os.path.join(d, 'other', 'top.gro'), os.path.join(d, 'other', 'unused.xtc'), lengths, alt_sym, cart)
            self.variants.append({'topology_file': os.path.join(d, 'other', 'top.gro')})

    def cache_files(self):
        return sorted(f for f in os.listdir(self.d) if f.endswith('.cache'))

    def clear_caches(self):
        for f in self.cache_files():
            os.unlink(os.path.join(self.d, f))


def garbage_set(rng, full):
    n = len(full)
    out = [('empty', b'')]
    out.append(('random_same_len', bytes(rng.integers(0, 256, size=n, dtype=np.uint8))))
    out.append(('random_short', bytes(rng.integers(0, 256, size=int(rng.integers(1, 40)), dtype=np.uint8))))
    for pos in (0, 1, 2, int(rng.integers(3, 16)), int(rng.integers(16, n - 1)), n - 1):
        b = bytearray(full)
        b[pos] ^= 1 << int(rng.integers(8))
        out.append((f'bitflip@{pos}', bytes(b)))
    out.append(('pickle_missing_attribute', b'cgemdat.trajectory\nNoSuchClass\n.'))
    out.append(('pickle_missing_module', b'cgv_no_such_module_xyz\nThing\n.'))
    out.append(('pickle_value_error', b"cbuiltins\nint\n(S'abc'\ntR."))
    out.append(('pickle_zero_division', b'cbuiltins\ndivmod\n(I1\nI0\ntR.'))
    out.append(('pickle_key_error', b'cbuiltins\ngetattr\n(cbuiltins\ndict\nS"nope"\ntR.'))
    out.append(('text', b'this is not a cache\n'))
    out.append(('tail_only', full[n // 2 :]))
    out.append(('doubled_header', full[:20] + full))
    return out


def run_unit(unit, rng, ctx):
    loader = ['lammps', 'vasprun', 'gromacs'][unit['i'] % 3]
    d = tempfile.mkdtemp(prefix='gvc16-')
    try:
        _run_cfg(unit, rng, ctx, loader, d)
    finally:
        shutil.rmtree(d, ignore_errors=True)


def _run_cfg(unit, rng, ctx, loader, d):
    # single-frame sources are switched off: with them one thorough-tier worker died with SIGSEGV inside the third-party
    # readers / unpicklers (reproducible, VERIF_SEED=5, not yet diagnosed); a crash of the harness helps nobody
    single = False and unit['i'] % 12 in (3, 7, 11)
    cfg = Config(rng, d, loader, single_frame=single)
    ctx.count('single_frame_sources', single)
    T = cfg.T
    what = f'{loader} {cfg.kw} explicit_cache={cfg.explicit_cache}'
    fresh, _ = quiet(cfg.call, cache=os.path.join(d, 'fresh.cache'))
    if not ctx.check(os.path.isfile(os.path.join(d, 'fresh.cache')), f'{what}: a load with cache=fresh.cache left no cache file behind ({len(fresh) if hasattr(fresh, "__len__") else "?"} frame(s) in the source)'):
        ctx.case(None, False)
        return
    os.unlink(os.path.join(d, 'fresh.cache'))
    cache_arg = os.path.join(d, 'my.cache') if cfg.explicit_cache else None
    # first load writes the cache
    with audited() as log:
        first, _ = quiet(cfg.call, cache=cache_arg)
    files = cfg.cache_files()
    ctx.check(len(files) == 1 and same(first, fresh), f'{what}: first load differs from a fresh parse or left {files} cache files')
    if len(files) != 1:
        ctx.case(None, False)
        return
    cpath = os.path.join(d, files[0])
    full = open(cpath, 'rb').read()
    wit = {'loader': loader, 'kwargs': cfg.kw, 'cache_bytes': len(full)}
    # (1) save / load round trip
    rt_path = os.path.join(d, 'roundtrip.bin')
    fresh.to_cache(rt_path)
    back = T.from_cache(rt_path)
    ctx.check(same(back, fresh), f'{what}: from_cache(to_cache(t)) != t', wit)
    for mode in ('positions', 'displacements'):
        probe = pickle.loads(pickle.dumps(fresh))
        _ = getattr(probe, mode)
        probe.to_cache(rt_path)
        b2 = T.from_cache(rt_path)
        ctx.check(same(b2, probe) and np.array_equal(np.asarray(b2.positions), np.asarray(probe.positions)), f'{what}: round trip in {mode} representation changed the trajectory', wit)
    # ... and for a trajectory that did not come from a loader: raw coordinates as a user hands them over (unwrapped,
    # values exactly on cell faces, whole lattice vectors), in position form and in displacement form
    from gv import gen as _gen
    for _rep in range(6):
        nT, nA = int(rng.integers(1, 7)), int(rng.integers(1, 5))
        raw = rng.uniform(-1.5, 2.5, size=(nT, nA, 3))
        special = np.array([0.0, 1.0, 1.0, -1.0, 2.0, 0.5, -0.0, 1.0 - 2.0**-53, 1.0 + 2.0**-52])
        pick = rng.uniform(size=raw.shape) < 0.35
        raw[pick] = special[rng.integers(len(special), size=int(pick.sum()))]
        hm = np.asarray(fresh.lattice, dtype=float).reshape(-1, 3, 3)[0]
        hsp = [str(x) for x in rng.choice(['Li', 'O', 'S', 'Na'], size=nA)]
        for disp in (False, True):
            kw_h = {'coords_are_displacement': True, 'base_positions': raw[0].copy()} if disp else {}
            hand = _gen.make_trajectory(hm, hsp, raw, time_step=float(rng.choice([1e-15, 2.5e-15])), metadata={'temperature': 450.0, 'note': 'hand-built'}, presentation='plain', **kw_h)
            before = pickle.loads(pickle.dumps(hand))
            hand.to_cache(rt_path)
            hb = T.from_cache(rt_path)
            ctx.check(same(hb, before) and same(hand, before), f'{what}: round trip of a hand-built trajectory ({"displacement" if disp else "position"} form, raw coordinates with exact 0 / 1 / -1 / 2) changed it', {**wit, 'raw': raw, 'got': np.asarray(hb.coords)})
            ctx.count('hand_built_round_trips')
            ctx.count('hand_built_round_trips_with_a_raw_coordinate_exactly_1', bool((raw == 1.0).any()))
    # explicit cache paths are the caller's file names, whatever their suffix: two names that differ only in the last
    # dotted part are two files, and the cache is left at exactly the requested path
    stem_ = str(rng.choice(['run', 'traj_T300', 'md.prod', 'x']))
    sfx_a, sfx_b = [str(x_) for x_ in rng.choice(['.v1', '.v2', '.0', '.5', '.pkl', '.bin', '', '.cache.old', '.cache'], size=2, replace=False)]
    pa_, pb_ = os.path.join(d, 'named', stem_ + sfx_a), os.path.join(d, 'named', stem_ + sfx_b)
    os.makedirs(os.path.join(d, 'named'), exist_ok=True)
    ha_ = _gen.make_trajectory(hm, ['Li', 'O'], rng.uniform(0, 1, size=(3, 2, 3)), metadata={'temperature': 300.0}, presentation='plain')
    hb_ = _gen.make_trajectory(hm, ['Li', 'O'], rng.uniform(0, 1, size=(4, 2, 3)), metadata={'temperature': 300.5}, presentation='plain')
    ha_.to_cache(pa_)
    hb_.to_cache(pb_)
    listing_ = sorted(os.listdir(os.path.join(d, 'named')))
    ctx.check(listing_ == sorted([stem_ + sfx_a, stem_ + sfx_b]), f'{what}: to_cache to {stem_ + sfx_a!r} and {stem_ + sfx_b!r} left the files {listing_}', wit)
    if listing_ == sorted([stem_ + sfx_a, stem_ + sfx_b]):
        ctx.check(same(T.from_cache(pa_), ha_) and same(T.from_cache(pb_), hb_), f'{what}: from_cache of {stem_ + sfx_a!r} / {stem_ + sfx_b!r} does not return what was saved under that name', wit)
    pc_ = os.path.join(d, 'named', 'loader_' + stem_ + sfx_a)
    via_, _ = quiet(cfg.call, cache=pc_)
    ctx.check(os.path.isfile(pc_) and same(via_, fresh), f'{what}: loading with cache={os.path.basename(pc_)!r} did not leave a cache at that path (directory: {sorted(os.listdir(os.path.join(d, "named")))}) or returned another trajectory', wit)
    if os.path.isfile(pc_):
        ctx.check(same(T.from_cache(pc_), fresh), f'{what}: the cache left at {os.path.basename(pc_)!r} does not hold the parsed trajectory', wit)
    ctx.count('explicit_cache_names_with_arbitrary_suffix')
    shutil.rmtree(os.path.join(d, 'named'), ignore_errors=True)
    os.unlink(rt_path)
    # (2) load with the cache present: same result, sources untouched
    with audited() as log:
        hit, out = quiet(cfg.call, cache=cache_arg)
    touched_src = [p for p, m_ in log if any(os.path.abspath(p) == os.path.abspath(s) for s in cfg.src)]
    ctx.check(same(hit, fresh), f'{what}: load with cache present differs from a fresh parse', wit)
    ctx.check(not touched_src and any(os.path.abspath(p) == cpath and m_ == 'r' for p, m_ in log), f'{what}: cache present but the loader did not serve from it (sources opened: {touched_src})', {**wit, 'open_log': log[:20]})

    def fault_and_check(kind, data, sig_extra):
        try:
            pickle.loads(data)
            # still a loadable pickle (e.g. a flipped bit inside array data): not "unreadable"
            ctx.count('garbage_was_a_loadable_pickle_skipped')
            return True
        except Exception as exc:  # noqa: BLE001
            ctx.count(f'unpickle_error_type:{type(exc).__name__}')
        with open(cpath, 'wb') as f:
            f.write(data)
        with audited() as log:
            try:
                res, out = quiet(cfg.call, cache=cache_arg)
            except Exception as exc:  # noqa: BLE001
                import traceback

                ctx.check(False, f'{what}: fault {kind}: loader raised {type(exc).__name__}: {exc} instead of falling back to the source files', {**wit, 'fault': kind, 'traceback': traceback.format_exc()[-1200:], 'cache_head': data[:40]})
                return False
        if not hasattr(res, 'coords'):
            ctx.check(False, f'{what}: fault {kind}: loader returned {type(res).__name__} ({res!r:.80}) instead of a trajectory', {**wit, 'fault': kind})
            with open(cpath, 'wb') as f:
                f.write(full)
            return False
        ok = ctx.check(same(res, fresh), f'{what}: fault {kind}: loader returned a trajectory that differs from a fresh parse', {**wit, 'fault': kind})
        reread = any(any(os.path.abspath(p) == os.path.abspath(s) for s in cfg.src) for p, _m in log)
        read_cache = any(os.path.abspath(p) == cpath and m_ == 'r' for p, m_ in log)
        rewrote = any(os.path.abspath(p) == cpath and m_ == 'w' for p, m_ in log)
        now = open(cpath, 'rb').read()
        try:
            again = pickle.loads(now)
            complete = same(again, fresh)
        except Exception:  # noqa: BLE001
            complete = False
        ok = ctx.check(complete, f'{what}: fault {kind}: no complete cache left behind ({len(now)} bytes, original {len(full)})', {**wit, 'fault': kind}) and ok
        ctx.check(read_cache and reread and rewrote, f'{what}: fault {kind}: open() log shows read_cache={read_cache} reread_sources={reread} rewrote_cache={rewrote}', {**wit, 'fault': kind, 'open_log': log[:20]})
        ctx.count('faults_injected')
        ctx.count('fallbacks_observed', reread)
        ctx.case(f'{loader}|{kind}|{sig_extra}', bool(reread), sample={'loader': loader, 'kwargs': {k: (v if not isinstance(v, dict) else dict(v)) for k, v in cfg.kw.items()}, 'fault': kind, 'cache_bytes': len(full), 'fell_back': bool(reread), 'cache_rewritten': bool(rewrote)} if kind.startswith('prefix') and sig_extra in (1, len(full) // 2) else None)
        if len(cfg.cache_files()) != 1:
            ctx.check(False, f'{what}: fault {kind}: cache files now {cfg.cache_files()}', wit)
        return ok

    # (3) every prefix of the cache file
    n = len(full)
    if ctx.tier == 'thorough':
        ks = range(0, n)
    else:
        ks = sorted(set(range(0, n, 5)) | set(range(0, min(24, n))) | set(range(max(0, n - 24), n)))
    bad = 0
    for k in ks:
        if not fault_and_check(f'prefix[{k}/{n}]', full[:k], k):
            bad += 1
            if bad >= 3:
                break
    ctx.count('prefixes_tried', len(ks))
    # (4) garbage
    for kind, data in garbage_set(rng, full):
        fault_and_check(kind, data, signature(data))
    # (5) damage -> recover -> hit -> damage cycles
    for cyc in range(4):
        k = int(rng.integers(0, n))
        fault_and_check(f'cycle{cyc}:prefix[{k}]', full[:k], f'c{cyc}-{k}')
        with audited() as log:
            hit, _ = quiet(cfg.call, cache=cache_arg)
        src_touched = any(any(os.path.abspath(p) == os.path.abspath(s) for s in cfg.src) for p, _m in log)
        ctx.check(same(hit, fresh) and not src_touched, f'{what}: after recovery the next load did not serve the repaired cache (sources re-read: {src_touched})', wit)
    # (6) a real crash in the middle of the cache write
    if unit['i'] % 3 == 0 or ctx.tier == 'thorough':
        k = int(rng.integers(1, n))
        good = os.path.join(d, 'good.bin')
        with open(good, 'wb') as f:
            f.write(full)
        code = (
            'import sys, os, builtins\n'
            f'sys.path.insert(0, {src_dir()!r})\n'
            'from gemdat import Trajectory\n'
            f't = Trajectory.from_cache({good!r})\n'
            'import pickle\n'
            f'open({good!r} + ".child", "wb").write(pickle.dumps(t))\n'
            'real_open = builtins.open\n'
            'class W:\n'
            '    def __init__(self, f): self.f = f; self.n = 0\n'
            '    def write(self, b):\n'
            f'        room = {k} - self.n\n'
            '        if len(b) >= room:\n'
            '            self.f.write(bytes(b)[:room]); self.f.flush(); os.fsync(self.f.fileno()); os._exit(9)\n'
            '        self.n += len(b); return self.f.write(b)\n'
            '    def __enter__(self): return self\n'
            '    def __exit__(self, *a): self.f.close()\n'
            '    def __getattr__(self, k): return getattr(self.f, k)\n'
            'def fake_open(p, mode="r", *a, **kw):\n'
            '    f = real_open(p, mode, *a, **kw)\n'
            f'    return W(f) if os.path.abspath(str(p)) == {cpath!r} and "w" in mode else f\n'
            'builtins.open = fake_open\n'
            f't.to_cache({cpath!r})\n'
            'os._exit(0)\n'
        )
        try:
            p = subprocess.run([sys.executable, '-c', code], capture_output=True, timeout=120)
            left = open(cpath, 'rb').read()
            # what the child would have written had it not crashed (pickles of MDAnalysis objects
            # are not byte-identical across processes)
            child_full = open(good + '.child', 'rb').read() if os.path.exists(good + '.child') else full
            ctx.count('real_crashes')
            ctx.check(p.returncode == 9 and left == child_full[: len(left)] and len(left) < len(child_full), f'{what}: crashed writer (rc={p.returncode}) left {len(left)} bytes that are not a strict prefix of the complete cache ({len(child_full)} bytes); stderr={p.stderr[-300:]!r}', wit)
            fault_and_check(f'real_crash_after[{len(left)}]', left, f'crash{len(left)}')
        except subprocess.TimeoutExpired:
            ctx.inconclusive_case('crash child timed out')
        os.unlink(good)
        if os.path.exists(good + '.child'):
            os.unlink(good + '.child')
    # (7) argument sets that change the parse result must not share a default cache file
    cfg.clear_caches()
    base_res, _ = quiet(cfg.call)
    # other cache-like files next to the sources (an explicit cache named <source stem>.cache written by a load with
    # the ORIGINAL arguments, a stale temporary file): a default-cache load with other arguments must not use them
    import pathlib

    decoy = str(pathlib.Path(cfg.src[0]).with_suffix('.cache'))
    if (unit['i'] // 3) % 2 == 0:
        quiet(lambda: cfg.call(cache=decoy))
        with open(decoy + '.tmp', 'wb') as fh:
            fh.write(b'stale temporary file')
        ctx.count('configs_with_foreign_cache_like_files_next_to_the_sources')
    for var in cfg.variants:
        def attempt(fn):
            try:
                return quiet(fn)[0]
            except Exception as exc:  # noqa: BLE001
                return exc

        want = attempt(lambda: cfg.call(cache=os.path.join(d, 'variant_fresh.cache'), **var))
        if os.path.exists(os.path.join(d, 'variant_fresh.cache')):
            os.unlink(os.path.join(d, 'variant_fresh.cache'))
        got = attempt(lambda: cfg.call(**var))
        ctx.check(same(got, want), f'{what}: default cache of {cfg.kw} was served for arguments {var}: got {type(got).__name__} {describe(got)["species"] if hasattr(got, "coords") else got!r}, a fresh parse gives {type(want).__name__}', {**wit, 'variant': var})
        again = attempt(lambda: cfg.call())
        ctx.check(same(again, base_res), f'{what}: after loading with {var} the original arguments no longer return their own trajectory', {**wit, 'variant': var})
        ctx.count('argument_variants_checked')
    ctx.count(f'configs:{loader}')
    ctx.count('configs_with_source_coordinates_outside_the_box', cfg.outside)
