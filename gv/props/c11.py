"""C11 — radial distributions equal brute-force histograms and partition over states."""
from __future__ import annotations

import warnings

import numpy as np

from .. import gen, geom, models
from ..core import signature
from ..monitor import Monitor

ID = 'C11'
LEVEL = 'exploration'
RULE = (
    'cases: margin-controlled pipeline systems (lattice zoo; 2-6 sites with 1-3 labels assigned non-contiguously; '
    '1-3 diffusing Li atoms with hop histories incl. transit through no-site; 2-5 framework atoms of 1-3 other '
    'species), cut-off 2-6 A, resolution in {0.1, 0.25, 0.5}.  Both public functions are run on the same system; a third of the systems carry several species variants per chemical symbol (Element next to neutral / differently charged Species).  '
    'Oracle: explicit pair loops with image-enumeration distances; state of every (frame, atom) from the loop '
    'fill-model of the states the Transitions object reports.  Non-trivial = more than one site label, at least '
    'one frame in an X->Y transit state and at least one pair inside the cut-off; distinct = SHA-1 of (positions, '
    'states, labels, cut-off, resolution).'
)
RULE += ' Added in rounds 5-10: per-atom species variants of one symbol; recurring cut-offs with results scribbled on after use; label vocabularies whose natural and string order differ; skewed cells with cut-offs between half the perpendicular width and half the shortest edge; one system with 1.8e7 pair distances (additivity over frame ranges + brute force on single frames).'
RULE += ' Round 16: species selections also as set / frozenset / dict keys.'
RULE += ' Round 15: a fifth of the systems with one distinct, sorted label per site; the previous / next site views read by the per-state RDF are retained and must not change.'
RULE += ' Round 14: the second species of the pair RDF also as a collection naming it repeatedly.'
RULE += ' Round 12: for a third of the systems framework atoms are placed 1.5e-9..4.5e-9 A beyond a bin edge from a diffusing atom; the bin-edge ambiguity band is 1e-9 A.'
ASSUMPTIONS = [
    'samples whose distance lies within 1e-9 A of a bin edge may fall in either neighbouring bin (counted in the evidence)',
    'bin 0 may include or exclude the zero self-distances',
    "'~>' states (transit with unknown previous or next site) are checked only as a whole: together they must hold exactly the remaining pairs",
    'site states reported by Transitions are taken as given (C02/C03)',
]
N_CASES = {'quick': 200, 'thorough': 25000}
BUDGET_S = {'quick': 220, 'thorough': 3600}
EDGE = 1e-9

_mon = Monitor()


def units(tier):
    out = [{'k': 'rand', 'i': i} for i in range(N_CASES[tier])]
    # systems with more than 2^24 pair distances in total (frames x atoms x atoms)
    out += [{'k': 'bigpair', 'i': i} for i in range(1 if tier == 'quick' else 3)]
    return out


def run_bigpair(unit, rng, ctx):
    """Many pairs x many frames: the species-pair RDF is additive over frame ranges (its normalisation does not
    depend on the number of frames), so the RDF of the whole run equals the sum of the RDFs of its two halves - and the
    raw counts of a short prefix are checked against the brute-force histogram."""
    from gemdat.rdf import radial_distribution_between_species

    kind, rot, m = geom.random_lattice(rng, lo=14.0, hi=18.0)
    n1, n2 = int(rng.integers(100, 121)), int(rng.integers(160, 181))
    T = int(2**24 // (n1 * n2) + rng.integers(60, 200))
    base = rng.uniform(0, 1, size=(1, n1 + n2, 3))
    P = np.mod(base + np.cumsum(rng.normal(scale=0.004, size=(T, n1 + n2, 3)), axis=0), 1)
    names = ['Li'] * n1 + ['S'] * n2
    traj = gen.make_trajectory(m, gen.species_objects(names), P, presentation='plain')
    max_dist, res = 4.0, 0.25
    what = f'{kind}{"/rot" if rot else ""} {n1} Li x {n2} S x {T} frames = {n1 * n2 * T} pair distances'
    h = int(rng.integers(T // 3, 2 * T // 3))
    full = radial_distribution_between_species(trajectory=traj, specie_1='Li', specie_2='S', max_dist=max_dist, resolution=res)
    a = radial_distribution_between_species(trajectory=traj[:h], specie_1='Li', specie_2='S', max_dist=max_dist, resolution=res)
    b = radial_distribution_between_species(trajectory=traj[h:], specie_1='Li', specie_2='S', max_dist=max_dist, resolution=res)
    yf, ya, yb = (np.asarray(x.y, dtype=float) for x in (full, a, b))
    ctx.check(yf.shape == ya.shape == yb.shape and np.allclose(yf, ya + yb, rtol=1e-9, atol=1e-12), f'{what}: the RDF of the whole run is not the sum of the RDFs of frames [0, {h}) and [{h}, {T}) (total {yf.sum()!r} vs {(ya + yb).sum()!r})', {'matrix': m})
    # brute force on a few frames spread over the run, incl. the last ones
    frames = sorted({0, 1, T // 2, T - 2, T - 1})
    vol = abs(np.linalg.det(m))
    bins = np.arange(0, max_dist + res, res)
    shell = (bins + res) ** 3 - bins**3
    norm = (n2 / vol) * (4 / 3) * np.pi * shell[:-1]
    for t in frames:
        one = radial_distribution_between_species(trajectory=traj[t : t + 1], specie_1='Li', specie_2='S', max_dist=max_dist, resolution=res)
        d = geom.min_image(m, P[t, :n1], P[t, n1:]).ravel()
        near = np.abs(d / res - np.round(d / res)) * res < 1e-9
        cnt, _ = np.histogram(d[~near], bins=bins)
        got = np.asarray(one.y) * norm
        ctx.check(bool(np.all(got >= cnt - 1e-6) and np.all(got <= cnt + near.sum() + 1e-6)), f'{what}: frame {t}: raw pair counts differ from the brute-force histogram', {'matrix': m})
    ctx.count('pair_distances_in_the_largest_system', n1 * n2 * T)
    ctx.case(f'bigpair{unit["i"]}', True, sample={'kind': 'bigpair', 'Li': n1, 'S': n2, 'frames': T, 'pair_distances': n1 * n2 * T})


def setup(ctx):
    import gemdat.rdf as rdf

    from .. import retain as _rt

    _mon.attach(rdf, 'radial_distribution', label='rdf.radial_distribution', retain=_rt.rdf_dict, scribble=True)
    _mon.attach(rdf, 'radial_distribution_between_species', label='rdf.radial_distribution_between_species', retain=_rt.rdf_one, scribble=True)
    _mon.attach(rdf, '_uniqify_labels', optional=True, label='rdf._uniqify_labels')
    # the site views the per-state RDF reads from the Transitions object are that object's (cached) results: the
    # analysis leaves them as they were returned
    import gemdat.transitions as gt_

    _mon.attach(gt_.Transitions, 'states_prev', label='Transitions.states_prev (read by the RDF)', retain=_rt.auto)
    _mon.attach(gt_.Transitions, 'states_next', label='Transitions.states_next (read by the RDF)', retain=_rt.auto)
    # silence the progress bar
    try:
        rdf.track = lambda it, **kw: it
    except Exception:  # noqa: BLE001
        pass


def teardown(ctx):
    _mon.flush_counts(ctx)
    _mon.detach_all()


def hist_halfopen_left(d, res, nb):
    """bin k = [k res, (k+1) res) (np.histogram convention); returns counts and ambiguity counts."""
    k = np.floor(d / res).astype(int)
    near = np.abs(d / res - np.round(d / res)) * res < EDGE
    cnt = np.bincount(k[(k < nb) & ~near], minlength=nb)[:nb]
    amb = np.zeros(nb, dtype=int)
    for e in np.round(d[near] / res).astype(int):
        for b in (e - 1, e):
            if 0 <= b < nb:
                amb[b] += 1
    return cnt, amb


def hist_right_closed(d, res, nb):
    """bin 0 = {0}, bin k = ((k-1) res, k res] (np.digitize(right=True) on edges k*res)."""
    k = np.ceil(d / res).astype(int)
    near = (np.abs(d / res - np.round(d / res)) * res < EDGE) & (d > 0)
    cnt = np.bincount(k[(k < nb) & ~near], minlength=nb)[:nb]
    amb = np.zeros(nb, dtype=int)
    for e in np.round(d[near] / res).astype(int):
        for b in (e, e + 1):
            if 0 <= b < nb:
                amb[b] += 1
    return cnt, amb


def within(got, cnt, amb):
    got = np.asarray(got)
    return got.shape == cnt.shape and bool(np.all(got >= cnt) and np.all(got <= cnt + amb))


def run_unit(unit, rng, ctx):
    from gemdat.rdf import radial_distribution, radial_distribution_between_species

    if unit['k'] == 'bigpair':
        return run_bigpair(unit, rng, ctx)

    skewed = unit['i'] % 4 == 1
    sys_ = gen.make_site_system(rng, kind=(str(rng.choice(['triclinic_strong', 'rhombohedral', 'hexagonal', 'monoclinic'])) if skewed else None), T=int(rng.integers(6, 40)), n_sites=int(rng.integers(2, 7)), n_atoms=int(rng.integers(1, 4)), margin=0.04, p_move=float(rng.choice([0.2, 0.4, 0.6])), n_framework=int(rng.integers(2, 6)), n_labels=int(rng.integers(1, 4)), lo=5.0, hi=9.0, distinct_labels=(unit['i'] % 5 == 3))
    m = sys_.matrix
    names = sys_.species_names
    T, N, _ = sys_.coords.shape
    # half of the cut-offs come from a small set, so that the same (cut-off, resolution) recurs within a process
    max_dist = float(rng.uniform(2.0, 6.0)) if rng.integers(2) else float(rng.choice([2.5, 4.0, 5.0]))
    if skewed:
        # skewed cell: a cut-off between half the smallest perpendicular width and half the shortest edge (the cut-off
        # sphere fits between lattice points along every edge but not between lattice planes)
        lo_, hi_ = 0.5 * float(geom.perp_widths(sys_.matrix).min()), 0.5 * float(np.linalg.norm(sys_.matrix, axis=1).min())
        if hi_ - lo_ > 0.15 and hi_ > 2.0:
            max_dist = float(rng.uniform(max(lo_ + 0.05, 1.5), hi_ - 0.02))
            ctx.count('cut_offs_between_half_perpendicular_width_and_half_edge')
    res = float(rng.choice([0.1, 0.25, 0.5, 0.02, 0.015]))  # the last two give more than 255 bins
    ctx.count('fine_resolution_cases', res < 0.05)
    what = f'{sys_.kind}{"/rot" if sys_.rotated else ""} labels={sys_.labels} species={names} max_dist={max_dist:.3f} res={res}'
    wit = {'matrix': m, 'labels': sys_.labels, 'species': names, 'max_dist': max_dist, 'resolution': res}
    if unit['i'] % 3 == 0:
        # pairs placed a few 1e-9 A beyond a bin edge (2.500000003 A): such a pair belongs to the upper bin; 3e-9 A is
        # six orders of magnitude above the rounding of a double-precision distance
        fw = [i for i, n_ in enumerate(names) if n_ != 'Li']
        li = [i for i, n_ in enumerate(names) if n_ == 'Li']
        lim = min(max_dist, 0.45 * float(geom.perp_widths(m).min()))
        inv_ = np.linalg.inv(m)
        for t_ in rng.choice(T, size=min(T, 4), replace=False):
            a_, j_ = int(rng.choice(li)), int(rng.choice(fw))
            k_hi = int(np.floor((lim - 1e-6) / res))
            if k_hi < 2:
                break
            e_ = int(rng.integers(1, k_hi + 1)) * res + float(rng.uniform(1.5e-9, 4.5e-9))
            u_ = gen.random_unit_vectors(rng, 1)[0]
            sys_.coords[t_, j_] = np.mod(sys_.coords[t_, a_] + (u_ * e_) @ inv_, 1)
            ctx.count('pairs_placed_1.5e-9..4.5e-9_A_beyond_a_bin_edge')
    P = np.mod(sys_.coords, 1)
    P[P == 1] = 0
    symbols = sorted(set(names))
    idx = {s: np.array([i for i, n in enumerate(names) if n == s]) for s in symbols}
    # all pair distances per frame  D[t, i, j]
    D = np.stack([geom.min_image(m, P[t], P[t]) for t in range(T)])
    amb_total = 0
    with warnings.catch_warnings():
        warnings.simplefilter('ignore')
        # a third of the systems have several species variants per symbol (mixed valence, Element next to Species)
        smode = 'valence' if unit['i'] % 3 == 2 else 'mixed'
        traj = sys_.trajectory(species_mode=smode, rng=rng)
        ctx.count(f'species_objects:{smode}')
        ctx.count('symbols_with_several_species_variants', sum(len({repr(sp) for sp, n_ in zip(traj.species, names) if n_ == sym}) > 1 for sym in set(names)))
        # ---- species-pair RDF -------------------------------------------------------------------
        bins = np.arange(0, max_dist + res, res)
        nb = len(bins) - 1
        vol = abs(np.linalg.det(m))
        pairs = [(a, b) for a in symbols for b in symbols]
        sel = [pairs[i] for i in rng.choice(len(pairs), size=min(4, len(pairs)), replace=False)]
        raw = {}
        for s1, s2 in sel + [(b, a) for a, b in sel]:
            if (s1, s2) in raw:
                continue
            if rng.uniform() < 0.3:
                _ = traj.displacements  # history: the source was last used in displacement representation
            form = int(rng.integers(6))
            a1 = s1 if form % 2 == 0 else [s1]
            a2 = s2 if form < 2 else (s2,)
            if form >= 4:
                # a collection naming a species more than once (a per-atom list [sp.symbol for sp in ... if ...]):
                # the atoms selected - and the ideal-gas density - are those of the species, each once
                a2 = [s2] * int(rng.integers(2, 4)) if form == 4 else [n_ for n_ in names if n_ == s2]
                ctx.count('second_species_given_as_a_collection_with_repeated_names')
            if rng.uniform() < 0.3:
                # unordered collections are collections too: set, frozenset, the keys of a dict
                which_ = int(rng.integers(3))
                mk_ = [lambda x_: {x_}, lambda x_: frozenset([x_]), lambda x_: {x_: 1}.keys()][which_]
                if rng.integers(2):
                    a1 = mk_(s1)
                else:
                    a2 = mk_(s2)
                ctx.count('species_given_as_set_frozenset_or_dict_keys')
            if rng.integers(2):
                out = traj.radial_distribution_between_species(specie_1=a1, specie_2=a2, max_dist=max_dist, resolution=res)
                ctx.count('via_Trajectory.radial_distribution_between_species')
            else:
                out = radial_distribution_between_species(trajectory=traj, specie_1=a1, specie_2=a2, max_dist=max_dist, resolution=res)
            d = D[:, idx[s1]][:, :, idx[s2]].ravel()
            selfpairs = int(np.sum(d == 0)) if s1 == s2 else 0
            cnt, amb = hist_halfopen_left(d[d > 0] if s1 == s2 else d, res, nb)
            amb_total += int(amb.sum())
            r = bins[:-1]
            norm = (len(idx[s2]) / vol) * (4 / 3) * np.pi * ((r + res) ** 3 - r**3)
            y = np.asarray(out.y)
            ok = y.shape == (nb,) and np.allclose(np.asarray(out.x), r, rtol=0, atol=1e-12)
            ctx.check(ok, f'{what}: RDF {s1}-{s2}: x/y have shape {np.asarray(out.x).shape}/{y.shape}, expected {nb} bins starting at 0', wit)
            if not ok:
                continue
            counts = y * norm
            rc = np.round(counts)
            integer = bool(np.all(np.abs(counts - rc) < 1e-6 * np.maximum(1, rc)))
            lo = cnt.copy()
            hi = cnt + amb
            hi[0] += selfpairs
            good = integer and bool(np.all(rc >= lo) and np.all(rc <= hi))
            if not good:
                k = int(np.argmax((rc < lo) | (rc > hi))) if integer else int(np.argmax(np.abs(counts - rc)))
                ctx.check(False, f'{what}: RDF {s1}-{s2}: bin {k} [{r[k]:.3f}, {r[k] + res:.3f}) holds y*norm={counts[k]!r}, the brute-force pair count is {int(cnt[k])} (ideal-gas normalisation {norm[k]!r})', {**wit, 'got_counts': counts, 'want_counts': cnt})
            else:
                ctx.decided()
            raw[s1, s2] = rc - np.eye(1, nb, 0)[0] * (selfpairs if rc[0] >= cnt[0] + selfpairs else 0)
        for s1, s2 in sel:
            if (s1, s2) in raw and (s2, s1) in raw:
                ctx.check(np.array_equal(raw[s1, s2], raw[s2, s1]), f'{what}: raw pair counts of {s1}-{s2} and {s2}-{s1} differ', wit)
        # ---- per-state RDF ----------------------------------------------------------------------
        try:
            tr = sys_.transitions(traj=traj)
        except ValueError as exc:
            if 'need at least one array' in str(exc):
                ctx.count('static_history_no_events')
                ctx.case(None, False)
                return
            raise
        # history: displacement-based queries on the full / diffusing trajectory between the site
        # analysis and the RDF (they switch the internal representation in place)
        hist_q = str(rng.choice(['none', 'msd', 'distances', 'displacements', 'drift', 'com', 'diff_displacements']))
        if hist_q == 'msd':
            _ = tr.trajectory.mean_squared_displacement()
        elif hist_q == 'distances':
            _ = tr.trajectory.distances_from_base_position()
        elif hist_q == 'displacements':
            _ = tr.trajectory.displacements
        elif hist_q == 'drift':
            _ = tr.trajectory.drift()
        elif hist_q == 'com':
            _ = tr.trajectory.center_of_mass()
        elif hist_q == 'diff_displacements':
            _ = tr.diff_trajectory.displacements
        ctx.count(f'query_before_rdf:{hist_q}')
        if rng.integers(2):
            rd = tr.radial_distribution(floating_specie='Li', max_dist=max_dist, resolution=res)
            ctx.count('via_Transitions.radial_distribution')
        else:
            rd = radial_distribution(transitions=tr, floating_specie='Li', max_dist=max_dist, resolution=res)
        what += f' [after {hist_q}]' if hist_q != 'none' else ''
    states = np.asarray(tr.states)
    prev = models.ffill_model(states)
    nxt = models.bfill_model(states)
    lab = sys_.labels
    nA = states.shape[1]
    nbr = len(np.arange(0, max_dist + res, res))
    # expected state string per (frame, atom); None = "other" ('~>' family)
    exp_state = np.empty(states.shape, dtype=object)
    for t in range(T):
        for a in range(nA):
            if states[t, a] >= 0:
                exp_state[t, a] = '@' + lab[states[t, a]]
            elif prev[t, a] >= 0 and nxt[t, a] >= 0:
                exp_state[t, a] = lab[prev[t, a]] + '->' + lab[nxt[t, a]]
            else:
                exp_state[t, a] = None
    got = {}
    for st_name, coll in rd.items():
        for item in coll:
            if (st_name, item.label) in got:
                ctx.check(False, f'{what}: state {st_name!r} / symbol {item.label} is returned twice', wit)
            got[st_name, item.label] = np.asarray(item.y)
            if item.state != st_name or len(np.asarray(item.x)) != nbr or np.asarray(item.y).shape != (nbr,):
                ctx.check(False, f'{what}: RDFData for state {st_name!r} / {item.label} has state={item.state!r}, len(x)={len(np.asarray(item.x))}, y shape {np.asarray(item.y).shape}; expected {nbr} bins', wit)
    li_idx = idx['Li']
    named_states = sorted({s for s in exp_state.ravel() if s is not None})
    n_transit_frames = int(sum(1 for s in exp_state.ravel() if s is not None and '->' in s))
    pairs_inside = 0
    for sym in symbols:
        other_cnt = np.zeros(nbr, dtype=int)
        other_amb = np.zeros(nbr, dtype=int)
        other_self = 0
        for st_name in named_states + [None]:
            mask = np.array([[exp_state[t, a] == st_name if st_name is not None else exp_state[t, a] is None for a in range(nA)] for t in range(T)])
            d = D[:, li_idx][:, :, idx[sym]][mask].ravel()
            selfp = int(np.sum(d == 0)) if sym == 'Li' else 0
            cnt, amb = hist_right_closed(d[d > 0] if sym == 'Li' else d, res, nbr)
            amb_total += int(amb.sum())
            pairs_inside += int(cnt[1:].sum())
            if st_name is None:
                other_cnt, other_amb, other_self = cnt, amb, selfp
                continue
            y = got.get((st_name, sym))
            if y is None:
                y = np.zeros(nbr, dtype=int)
                if cnt.sum() + selfp == 0:
                    ctx.decided()
                    continue
            lo = cnt.copy()
            hi = cnt + amb
            hi[0] += selfp
            if not (y.shape == lo.shape and np.all(y >= lo) and np.all(y <= hi)):
                k = int(np.argmax((y < lo) | (y > hi))) if y.shape == lo.shape else -1
                ctx.check(False, f'{what}: state {st_name!r}, symbol {sym}: bin {k} holds {int(y[k]) if k >= 0 else y.shape}, brute force over the frames in that state gives {int(cnt[k])} (+{int(amb[k])} on an edge)', {**wit, 'states': states, 'got': y, 'want': cnt})
            else:
                ctx.decided()
        # everything that is not an '@X' / 'X->Y' state the model knows must be the '~>' family
        unexpected = [k for k in got if k[1] == sym and k[0] not in named_states and not k[0].startswith('~>') and got[k].sum() > 0]
        if unexpected:
            ctx.check(False, f'{what}: pairs are counted in state {unexpected[0][0]!r} although no frame is in that state', {**wit, 'states': states})
        tot_other = sum((got[k] for k in got if k[1] == sym and k[0] not in named_states), np.zeros(nbr, dtype=int))
        lo = other_cnt.copy()
        hi = other_cnt + other_amb
        hi[0] += other_self
        ctx.check(bool(np.all(tot_other >= lo) and np.all(tot_other <= hi)), f'{what}: symbol {sym}: pairs of frames without a known previous/next site are not counted exactly once in the "~>" states (got {tot_other.tolist()}, want {other_cnt.tolist()})', {**wit, 'states': states})
    ctx.count('bin_edge_ambiguous_samples', amb_total)
    ctx.count('frames_in_transit_state', n_transit_frames)
    ctx.count('pairs_inside_cutoff', pairs_inside)
    ctx.count('state_symbol_histograms', len(got))
    ctx.count(f'lattice:{sys_.kind}')
    ctx.count(f'n_labels:{len(set(lab))}')
    ctx.case(signature(P, states, lab, max_dist, res), len(set(lab)) > 1 and n_transit_frames > 0 and pairs_inside > 0, sample={'lattice': sys_.kind, 'labels': lab, 'species': names, 'T': T, 'max_dist': max_dist, 'resolution': res, 'states_seen': named_states, 'returned_states': sorted(rd)})
