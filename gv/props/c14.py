"""C14 — derived metrics obey their formulas and physical scaling laws."""
from __future__ import annotations

import numpy as np

from .. import gen, geom
from ..core import signature
from ..monitor import Monitor

ID = 'C14'
LEVEL = 'exploration'
RULE = (
    'cases: random walks of 1-6 atoms with mixed masses (Li, Na, S, O, Ag) over 6-200 frames in lattice-zoo cells; '
    'random ion charge 1-3, dimensions 1-3, temperature 50-1500 K, cell scale k and time scale s in (0.3, 4); one '
    'third of the cases move all atoms identically (Haven ratio 1); in half of the cases the same Trajectory object is then changed in place (temperature, time step, frames appended with extend) and asked again through Trajectory.metrics().  Oracle: defining formulas with CODATA 2018 '
    'constants on the harness ground truth + metamorphic scaling relations between two runs of the real code.  '
    'Non-trivial = at least two atoms of different mass in a non-cubic or rotated cell; distinct = SHA-1 of (walk, '
    'species, cell, parameters).'
)
RULE += ' Added in rounds 5-10: in-place edits (temperature, time step, extend) re-queried through Trajectory.metrics(); 1/T law on a second live trajectory; cell scale over six decades; hydrogen isotopes; lists of different runs (other cell / temperature / a one-frame run) for the Std variants; arbitrary time steps.'
RULE += ' Round 12: ion charges also negative, zero (conductivity exactly 0) and fractional. Round 14: runs handed over as displacements whose first stored frame is already displaced from the reference positions (amplitude sum). Round 13: a series of further charges from {-2,-1,1,2,3} is queried on the same metrics object.'
ASSUMPTIONS = [
    'CODATA 2018 exact constants (k_B, e, N_A); atomic masses from pymatgen Element data',
    'relative tolerance 1e-9; total time = n_frames x time_step',
]
N_CASES = {'quick': 320, 'thorough': 60000}
BUDGET_S = {'quick': 200, 'thorough': 3600}
KB = 1.380649e-23
QE = 1.602176634e-19
NA = 6.02214076e23
ANG = 1e-10

_mon = Monitor()


def units(tier):
    return [{'k': 'rand', 'i': i} for i in range(N_CASES[tier])]


def setup(ctx):
    from .. import retain as _rt

    from gemdat.metrics import TrajectoryMetrics, TrajectoryMetricsStd

    for name in ('particle_density', 'mol_per_liter', 'tracer_diffusivity', 'tracer_diffusivity_center_of_mass', 'haven_ratio', 'tracer_conductivity', 'attempt_frequency', 'vibration_amplitude', 'amplitudes', 'speed'):
        _mon.attach(TrajectoryMetrics, name, label=f'TrajectoryMetrics.{name}', retain=_rt.auto)
    for name in ('tracer_diffusivity', 'tracer_conductivity', 'vibration_amplitude', 'speed', 'amplitudes'):
        _mon.attach(TrajectoryMetricsStd, name, label=f'TrajectoryMetricsStd.{name}')


def teardown(ctx):
    _mon.flush_counts(ctx)
    _mon.detach_all()


def close(a, b, rtol=1e-9):
    a, b = float(a), float(b)
    return np.isfinite(a) and np.isfinite(b) and abs(a - b) <= rtol * max(abs(a), abs(b), 1e-300)


def run_unit(unit, rng, ctx):
    from gemdat.metrics import TrajectoryMetrics, TrajectoryMetricsStd
    from pymatgen.core import Element

    kind, rot, m = geom.random_lattice(rng)
    T = int(rng.integers(6, 201))
    N = int(rng.integers(1, 7))
    # a fifth of the cases contain hydrogen isotopes: D and T are species of symbol 'H' with their own masses
    pool_ = ['Li', 'Na', 'S', 'O', 'Ag', 'H', 'D', 'T'] if unit['i'] % 5 == 2 else ['Li', 'Na', 'S', 'O', 'Ag']
    names = [str(x) for x in rng.choice(pool_, size=N)]
    ctx.count('cases_with_hydrogen_isotopes', any(n_ in ('D', 'T') for n_ in names))
    identical = unit['i'] % 3 == 0
    U = gen.random_walk(rng, T, 1 if identical else N, max_step=float(rng.choice([0.05, 0.2])))
    if identical:
        U = rng.uniform(-2, 3, size=(1, N, 3)) + (U - U[:1])  # same motion, different start
    dt = float(rng.choice([1e-15, 2e-15, 20 * 2.4188843265857e-17, float(10.0 ** rng.uniform(-16.5, -14))]))
    temp = float(rng.uniform(50, 1500))
    z = int(rng.integers(1, 4))
    if rng.uniform() < 0.3:
        # "all ion charges": anions, a neutral species (conductivity exactly zero), partial charges
        z = [-2, -1, 0, 0, 4, 0.5, -1.5][int(rng.integers(7))]
    dim = int(rng.integers(1, 4))
    sp = gen.species_objects(names, rng=rng)
    traj = gen.make_trajectory(m, sp, U - np.floor(U), time_step=dt, metadata={'temperature': temp})
    M = TrajectoryMetrics(traj)
    what = f'{kind}{"/rot" if rot else ""} T={T} species={names} z={z} dim={dim}'
    wit = {'matrix': m, 'names': names, 'T': T, 'dt': dt, 'temperature': temp}

    vol = abs(np.linalg.det(m))
    dens = N / (vol * ANG**3)
    cart = (U - U[:1]) @ m
    D = float(np.mean(np.sum(cart[-1] ** 2, axis=1))) * ANG**2 / (2 * dim * T * dt)
    masses = np.array([float(Element(n).atomic_mass) for n in names])
    com = np.einsum('tac,a->tc', U, masses) / masses.sum()
    com_cart = (com - com[:1]) @ m
    Dcom = float(np.sum(com_cart[-1] ** 2)) * ANG**2 / (2 * dim * T * dt)

    # history: cached metric methods share intermediate arrays; call a random selection first, in random order
    warm = [str(x) for x in rng.permutation(['attempt_frequency', 'speed', 'vibration_amplitude', 'amplitudes', 'haven_ratio', 'tracer_diffusivity', 'particle_density'])[: int(rng.integers(0, 5))]]
    for q in warm:
        try:
            getattr(M, q)(dimensions=dim) if q in ('haven_ratio', 'tracer_diffusivity') else getattr(M, q)()
        except ZeroDivisionError:
            pass
    what += f' after {warm}' if warm else ''
    ctx.count('cases_with_warm_up_calls', bool(warm))
    ctx.check(close(M.particle_density(), dens), f'{what}: particle_density {float(M.particle_density())!r} != N/V {dens!r}', wit)
    ctx.check(close(M.mol_per_liter(), dens * 1e-3 / NA), f'{what}: mol_per_liter {float(M.mol_per_liter())!r} != {dens * 1e-3 / NA!r}', wit)
    ctx.check(close(M.tracer_diffusivity(dimensions=dim), D), f'{what}: tracer_diffusivity {float(M.tracer_diffusivity(dimensions=dim))!r} != {D!r}', wit)
    sigma = QE**2 * z**2 * D * dens / (KB * temp)
    ctx.check(close(M.tracer_conductivity(z_ion=z, dimensions=dim), sigma), f'{what}: tracer_conductivity {float(M.tracer_conductivity(z_ion=z, dimensions=dim))!r} != e^2 z^2 D n / kT = {sigma!r}', wit)
    # the same object asked for further charges (a series -2 .. 2 of candidate carriers) answers each with its own z^2
    for z_more in [int(x_) for x_ in rng.permutation([-2, -1, 1, 2, 3])[: int(rng.integers(2, 5))]]:
        s_more = QE**2 * z_more**2 * D * dens / (KB * temp)
        ctx.check(close(M.tracer_conductivity(z_ion=z_more, dimensions=dim), s_more), f'{what}: a further tracer_conductivity(z_ion={z_more}) on the same object gives {float(M.tracer_conductivity(z_ion=z_more, dimensions=dim))!r} != e^2 z^2 D n / kT = {s_more!r}', wit)
    ctx.count('series_of_charges_on_one_metrics_object')
    got_com = float(M.tracer_diffusivity_center_of_mass(dimensions=dim))
    if Dcom > 1e-6 * D:
        ctx.check(close(got_com, Dcom, 1e-7), f'{what}: centre-of-mass diffusivity {got_com!r} != mass-weighted definition {Dcom!r}', {**wit, 'masses': masses})
        ctx.check(close(M.haven_ratio(dimensions=dim), D / Dcom, 1e-7), f'{what}: haven_ratio {float(M.haven_ratio(dimensions=dim))!r} != D_tracer/D_com {D / Dcom!r}', wit)
        if identical:
            ctx.check(close(M.haven_ratio(dimensions=dim), 1.0, 1e-7), f'{what}: atoms moving identically give Haven ratio {float(M.haven_ratio(dimensions=dim))!r}, not 1', wit)
            ctx.count('identical_motion_cases')
    # vibration amplitudes sum to the final distance
    amps = np.asarray(M.amplitudes())
    final = np.linalg.norm(cart[-1], axis=1)
    ctx.check(close(amps.sum(), final.sum(), 1e-8), f'{what}: vibration amplitudes sum to {amps.sum()!r}, final distances sum to {final.sum()!r}', wit)
    if unit['i'] % 5 == 3:
        # a trajectory handed over as displacements from explicit reference positions, the first stored frame already
        # displaced from them (non-zero first row); only this fresh object is asked, nothing switches its representation
        dsp_b = np.diff(U, axis=0, prepend=U[:1])
        dsp_b[0] = rng.uniform(-0.1, 0.1, size=(N, 3))
        tb_ = gen.make_trajectory(m, sp, dsp_b, time_step=dt, metadata={'temperature': temp}, presentation='plain', coords_are_displacement=True, base_positions=(U[0] - np.floor(U[0])).copy())
        amps_b = np.asarray(TrajectoryMetrics(tb_).amplitudes())
        final_b = np.linalg.norm(np.cumsum(dsp_b, axis=0)[-1] @ m, axis=1)
        ctx.check(close(amps_b.sum(), final_b.sum(), 1e-8), f'{what} [given as displacements from reference positions, first frame already displaced]: vibration amplitudes sum to {amps_b.sum()!r}, the final distances from the reference positions sum to {final_b.sum()!r}', wit)
        ctx.count('displacement_built_runs_with_a_displaced_first_frame')
    if N > 1:
        sym0 = 'H' if names[0] in ('H', 'D', 'T') else names[0]
        a0 = np.asarray(TrajectoryMetrics(traj.filter(sym0)).amplitudes()) if sum(1 for n_ in names if ('H' if n_ in ('H', 'D', 'T') else n_) == sym0) == 1 else None
        if a0 is not None:
            ctx.check(close(a0.sum(), final[0], 1e-8), f'{what}: amplitudes of atom 0 sum to {a0.sum()!r}, its final distance is {final[0]!r}', wit)
    dist_truth = np.linalg.norm(cart, axis=2).T
    speed_truth = np.diff(dist_truth, prepend=0)
    ctx.check(np.allclose(np.asarray(M.speed()), speed_truth, rtol=1e-9, atol=1e-9 * max(1.0, float(np.abs(speed_truth).max()))), f'{what}: speed() is not the change of the distance from the starting position', wit)
    vib = float(M.vibration_amplitude())
    ctx.check(close(vib, float(np.std(amps))), f'{what}: vibration_amplitude {vib!r} != std of the amplitudes {float(np.std(amps))!r}', wit)
    freq, freq_std = (float(x) for x in M.attempt_frequency())

    # ---- scaling laws (metamorphic: two runs of the real code) ---------------------------------
    # cell scale: usually of order one, in a third of the cases over six decades (1e-4 .. 1e2)
    k = float(rng.uniform(0.3, 4.0)) if unit['i'] % 3 else float(10.0 ** rng.uniform(-4, 2))
    s = float(rng.uniform(0.3, 4.0))
    Mk = TrajectoryMetrics(gen.make_trajectory(m * k, sp, U - np.floor(U), time_step=dt, metadata={'temperature': temp}))
    Ms = TrajectoryMetrics(gen.make_trajectory(m, sp, U - np.floor(U), time_step=dt * s, metadata={'temperature': temp}))
    ctx.check(close(Mk.tracer_diffusivity(dimensions=dim), D * k**2), f'{what}: cell x{k:.3f}: diffusivity did not scale by k^2', wit)
    ctx.check(close(Mk.particle_density(), dens / k**3), f'{what}: cell x{k:.3f}: particle density did not scale by 1/k^3', wit)
    # a standard deviation of (nearly) equal amplitudes is rounding noise: compare on the scale of the amplitudes
    amp_scale = float(np.abs(amps).max()) if amps.size else 1.0
    vk = float(Mk.vibration_amplitude())
    ctx.check(close(vk, vib * k, 1e-8) or abs(vk - vib * k) <= 1e-10 * amp_scale * k, f'{what}: cell x{k:.3f}: vibration amplitude {vk!r} != k x {vib!r}', wit)
    if np.isfinite(freq):
        fk = float(Mk.attempt_frequency()[0])
        ctx.check(close(fk, freq, 1e-8), f'{what}: cell x{k:.3f}: attempt frequency changed {freq!r} -> {fk!r}', wit)
        fs = float(Ms.attempt_frequency()[0])
        ctx.check(close(fs, freq / s, 1e-8), f'{what}: time step x{s:.3f}: attempt frequency {fs!r} != {freq / s!r}', wit)
    else:
        ctx.count('attempt_frequency_nan')
    ctx.check(close(Ms.tracer_diffusivity(dimensions=dim), D / s), f'{what}: time step x{s:.3f}: diffusivity did not scale by 1/s', wit)
    # temperature law: another trajectory object with the same motion at another temperature, both alive
    tq = float(rng.uniform(1.5, 3.0))
    Mt_ = TrajectoryMetrics(gen.make_trajectory(m, sp, U - np.floor(U), time_step=dt, metadata={'temperature': temp * tq}))
    ctx.check(close(Mt_.tracer_conductivity(z_ion=z, dimensions=dim), sigma / tq), f'{what}: temperature x{tq:.3f}: conductivity {float(Mt_.tracer_conductivity(z_ion=z, dimensions=dim))!r} != sigma / {tq:.3f} = {sigma / tq!r}', wit)
    ctx.check(close(Mt_.tracer_diffusivity(dimensions=dim), D), f'{what}: temperature x{tq:.3f}: diffusivity changed', wit)
    # ... and the first trajectory still answers for its own temperature (a fresh metrics object, nothing memoised)
    ctx.check(close(TrajectoryMetrics(traj).tracer_conductivity(z_ion=z, dimensions=dim), sigma), f'{what}: after a second trajectory at {temp * tq:.1f} K was analysed, the conductivity of the first ({temp:.1f} K) is {float(TrajectoryMetrics(traj).tracer_conductivity(z_ion=z, dimensions=dim))!r}, the definition gives {sigma!r}', wit)
    ctx.check(close(Ms.tracer_conductivity(z_ion=z, dimensions=dim), sigma / s), f'{what}: time step x{s:.3f}: conductivity did not scale by 1/s', wit)
    if Dcom > 1e-6 * D:
        ctx.check(close(Mk.tracer_diffusivity_center_of_mass(dimensions=dim), Dcom * k**2, 1e-7), f'{what}: cell x{k:.3f}: COM diffusivity did not scale by k^2', wit)

    # ---- mean / std over a list of DIFFERENT runs (other cell volume, other temperature, other length): each run
    # contributes its own conductivity (own density, own temperature) ------------------------------------
    if unit['i'] % 3 == 1:
        runs = [traj, Mk.trajectory, Mt_.trajectory]
        D_runs = [D, D * k**2, D]
        sig_runs = [sigma, QE**2 * z**2 * (D * k**2) * (dens / k**3) / (KB * temp), sigma / tq]
        perm_ = [int(x) for x in rng.permutation(3)]
        S_h = TrajectoryMetricsStd([runs[i_] for i_ in perm_])
        gD, gS = S_h.tracer_diffusivity(dimensions=dim), S_h.tracer_conductivity(z_ion=z, dimensions=dim)
        ctx.check(close(gD.nominal_value, np.mean(D_runs)) and abs(gD.std_dev - np.std(D_runs)) <= 1e-9 * max(np.mean(D_runs), 1e-300), f'{what}: TrajectoryMetricsStd.tracer_diffusivity over runs in different cells / temperatures is {gD!r}, mean/std of the runs is ({np.mean(D_runs)!r}, {np.std(D_runs)!r})', wit)
        ctx.check(close(gS.nominal_value, np.mean(sig_runs)) and abs(gS.std_dev - np.std(sig_runs)) <= 1e-9 * max(np.mean(sig_runs), 1e-300), f'{what}: TrajectoryMetricsStd.tracer_conductivity over runs with cell scale {k:.3g} and temperature x{tq:.3f} (order {perm_}) is {gS!r}; mean/std of the runs\' own conductivities is ({np.mean(sig_runs)!r}, {np.std(sig_runs)!r})', wit)
        ctx.count('std_variants_over_heterogeneous_runs')
    # ---- mean / std over sub-trajectories -------------------------------------------------------
    n_parts = int(rng.integers(2, 5))
    if T >= 4 * n_parts:
        parts = traj.split(n_parts, equal_parts=True)
        S = TrajectoryMetricsStd(parts)
        vals = [float(TrajectoryMetrics(p).tracer_diffusivity(dimensions=dim)) for p in parts]
        # independent value of each part from the ground truth frame ranges
        bounds = np.linspace(0, T - 1, n_parts + 1).astype(int)
        size = int(np.min(np.diff(bounds)))
        mine = []
        for b in bounds[:-1]:
            seg = (U[b : b + size] - U[b : b + 1]) @ m
            mine.append(float(np.mean(np.sum(seg[-1] ** 2, axis=1))) * ANG**2 / (2 * dim * size * dt))
        got = S.tracer_diffusivity(dimensions=dim)
        ctx.check(close(got.nominal_value, np.mean(mine)) and abs(got.std_dev - np.std(mine)) <= 1e-9 * max(np.mean(mine), 1e-300), f'{what}: TrajectoryMetricsStd.tracer_diffusivity {got!r} != mean/std over {n_parts} equal parts ({np.mean(mine)!r}, {np.std(mine)!r})', wit)
        gotc = S.tracer_conductivity(z_ion=z, dimensions=dim)
        cm = [QE**2 * z**2 * v * dens / (KB * temp) for v in mine]
        ctx.check(close(gotc.nominal_value, np.mean(cm)) and abs(gotc.std_dev - np.std(cm)) <= 1e-9 * max(np.mean(cm), 1e-300), f'{what}: TrajectoryMetricsStd.tracer_conductivity {gotc!r} != mean/std over parts', wit)
        vibs = [float(TrajectoryMetrics(p).vibration_amplitude()) for p in parts]
        gv_ = S.vibration_amplitude()
        ctx.check(close(gv_.nominal_value, np.mean(vibs)) and abs(gv_.std_dev - np.std(vibs)) <= 1e-9 * max(np.mean(vibs), 1e-300), f'{what}: TrajectoryMetricsStd.vibration_amplitude != mean/std of the parts', wit)
        sm, ss = S.speed()
        sp_parts = [np.asarray(TrajectoryMetrics(p).speed()) for p in parts]
        ctx.check(np.allclose(sm, np.mean(sp_parts, axis=0), rtol=1e-9, atol=1e-12) and np.allclose(ss, np.std(sp_parts, axis=0), rtol=1e-9, atol=1e-12), f'{what}: TrajectoryMetricsStd.speed != mean/std of the parts', wit)
        ctx.count('std_variants_checked')
        # sub-trajectories of UNEQUAL length (default split, or hand-made slices): still plain mean / std
        cuts = sorted({0, T} | {int(x) for x in rng.integers(2, T - 2, size=int(rng.integers(1, 4)))})
        cuts = [c for i, c in enumerate(cuts) if i == 0 or c - cuts[i - 1] >= 2]
        if rng.integers(3) == 0 and len(cuts) >= 3 and cuts[-1] == T and cuts[1] >= 3:
            # one of the runs is a single frame (a one-frame run contributes a diffusivity of 0, it is not left out)
            cuts = cuts[:1] + [1] + cuts[1:]
            ctx.count('run_lists_with_a_single_frame_run')
        if len(cuts) >= 3 and cuts[-1] == T:
            slices = [traj[a_:b_] for a_, b_ in zip(cuts[:-1], cuts[1:])]
            S2 = TrajectoryMetricsStd(slices)
            mine2 = []
            for a_, b_ in zip(cuts[:-1], cuts[1:]):
                seg = (U[a_:b_] - U[a_ : a_ + 1]) @ m
                mine2.append(float(np.mean(np.sum(seg[-1] ** 2, axis=1))) * ANG**2 / (2 * dim * (b_ - a_) * dt))
            g2 = S2.tracer_diffusivity(dimensions=dim)
            ctx.check(close(g2.nominal_value, np.mean(mine2)) and abs(g2.std_dev - np.std(mine2)) <= 1e-9 * max(np.mean(mine2), 1e-300), f'{what}: TrajectoryMetricsStd.tracer_diffusivity over parts of lengths {np.diff(cuts).tolist()} is {g2!r}; plain mean/std of the parts is ({np.mean(mine2)!r}, {np.std(mine2)!r})', wit)
            c2 = S2.tracer_conductivity(z_ion=z, dimensions=dim)
            cm2 = [QE**2 * z**2 * v * dens / (KB * temp) for v in mine2]
            ctx.check(close(c2.nominal_value, np.mean(cm2)) and abs(c2.std_dev - np.std(cm2)) <= 1e-9 * max(np.mean(cm2), 1e-300), f'{what}: TrajectoryMetricsStd.tracer_conductivity over unequal parts != plain mean/std', wit)
            ctx.count('std_variants_on_unequal_parts')
    # ---- history on one Trajectory object: public entry point traj.metrics(), the trajectory is changed in
    # place (temperature, time step, more frames appended) and asked again --------------------------------
    if unit['i'] % 2 == 0:
        Mt = traj.metrics()
        ctx.check(close(Mt.tracer_diffusivity(dimensions=dim), D) and close(Mt.tracer_conductivity(z_ion=z, dimensions=dim), sigma), f'{what}: Trajectory.metrics() gives D={float(Mt.tracer_diffusivity(dimensions=dim))!r}, sigma={float(Mt.tracer_conductivity(z_ion=z, dimensions=dim))!r}; definitions give {D!r}, {sigma!r}', wit)
        edit = str(rng.choice(['temperature', 'time_step', 'extend']))
        U2, dt2, temp2 = U, dt, temp
        if edit == 'temperature':
            temp2 = float(temp * rng.uniform(1.5, 3.0))
            traj.metadata['temperature'] = temp2
        elif edit == 'time_step':
            dt2 = float(dt * rng.uniform(1.5, 3.0))
            traj.time_step = dt2
        else:
            T2 = int(rng.integers(3, 40))
            U2 = np.concatenate([U, U[-1:] + np.cumsum(rng.uniform(-0.1, 0.1, size=(T2, N, 3)), axis=0)])
            traj.extend(gen.make_trajectory(m, sp, (U2 - np.floor(U2))[T:], time_step=dt, metadata={'temperature': temp}))
        Tn = len(U2)
        cart2 = (U2 - U2[:1]) @ m
        D2 = float(np.mean(np.sum(cart2[-1] ** 2, axis=1))) * ANG**2 / (2 * dim * Tn * dt2)
        sigma2 = QE**2 * z**2 * D2 * dens / (KB * temp2)
        M2 = traj.metrics()
        if ctx.check(len(traj) == Tn, f'{what}: after {edit} the trajectory has {len(traj)} frames, expected {Tn}', wit):
            ctx.check(close(M2.tracer_diffusivity(dimensions=dim), D2), f'{what}: after the trajectory was changed in place ({edit}) Trajectory.metrics().tracer_diffusivity is {float(M2.tracer_diffusivity(dimensions=dim))!r}; the definition on the current trajectory gives {D2!r}', wit)
            ctx.check(close(M2.tracer_conductivity(z_ion=z, dimensions=dim), sigma2), f'{what}: after the trajectory was changed in place ({edit}) Trajectory.metrics().tracer_conductivity is {float(M2.tracer_conductivity(z_ion=z, dimensions=dim))!r}; the definition gives {sigma2!r}', wit)
            final2 = np.linalg.norm(cart2[-1], axis=1)
            ctx.check(close(np.asarray(M2.amplitudes()).sum(), final2.sum(), 1e-8), f'{what}: after {edit}: vibration amplitudes no longer sum to the final distances', wit)
        ctx.count(f'requery_after_in_place_edit:{edit}')
    hetero = len(set(names)) > 1
    ctx.count(f'lattice:{kind}')
    ctx.count(f'z_ion:{z}')
    ctx.count(f'dimensions:{dim}')
    ctx.case(signature(U, names, m, z, dim, temp), hetero and (kind != 'cubic' or rot), sample={'lattice': kind, 'rotated': rot, 'T': T, 'species': names, 'z_ion': z, 'dimensions': dim, 'temperature': temp, 'k': k, 's': s, 'identical_motion': identical})
