"""C17 — shape analysis collects exactly the symmetry-equivalent points within the radius."""
from __future__ import annotations

import warnings

import numpy as np

from .. import gen, geom, snap
from ..core import Skip, signature
from ..monitor import Monitor

ID = 'C17'
LEVEL = 'exploration'
RULE = (
    'cases: space groups drawn over all 7 crystal systems (quick: 48 groups incl. P1, P-1, centred monoclinic, '
    'Pnma, screw/glide tetragonal, R-3m in hexagonal and rhombohedral axes, P6_3/mmc, Fm-3m, Fd-3m, Ia-3d; '
    'thorough: all 230) with a random compatible lattice; 1-3 sites per group, uniform or within 0.03 of a cell '
    'face (symmetry images fall outside [0,1)); 100-1500 input positions (uniform + clustered around symmetry '
    'images of the site); radius 0.2-0.45 x the smallest perpendicular width; SpaceGroup and spglib '
    'SpacegroupOperations; analyze_positions and analyze_trajectory with integer supercells up to 3x2x2, a second analyzer per case for the same group type in another setting (rigidly shifted structure, spglib operations), the trajectory handed over in position representation, left in displacement representation by an earlier query, or built from displacements + base positions.  Oracle: '
    'per operation, image-enumeration distances from op(site) to every position, inverse operation applied to the '
    'nearest image.  Non-trivial = at least one collected point whose symmetry image of the site lies outside '
    '[0,1) and at least 5 points collected; distinct = SHA-1 of (group, lattice, site, positions).'
)
RULE += ' Added in rounds 6-9: positions bitwise on site centres / images; trajectory cells expanded / compressed by about 1 % or reoriented.'
RULE += ' Round 16: input positions of analyze_positions in arbitrary periodic images.'
RULE += ' Round 15: half of the structures handed to from_structure have a rigidly rotated lattice matrix; the analyzer keeps the cell of the structure.'
RULE += ' Round 14: 10 (200) ideal-lattice inputs (nodes of a 1 A grid, site on a node, radius 1 / 2 / 3 A) whose distances are exact; pairs exactly at the radius are not below it.'
ASSUMPTIONS = [
    'pymatgen space-group operation tables and SymmOp.operate / inverse are trusted',
    'lattices are generated compatible with the group (checked with SpaceGroup.is_compatible), so operations are isometries',
    'radius below half the smallest perpendicular width of the cell; positions within 1e-7 A of the radius are tolerated either way',
]
QUICK_GROUPS = [1, 2, 3, 5, 9, 12, 14, 15, 19, 33, 36, 43, 47, 62, 63, 64, 70, 74, 75, 80, 88, 92, 99, 109, 122, 123, 136, 139, 141, 142, 143, 146, 148, 150, 161, 166, 167, 168, 173, 176, 186, 191, 194, 198, 205, 216, 221, 225, 227, 229, 230]
BUDGET_S = {'quick': 230, 'thorough': 3600}
REPS = {'quick': 2, 'thorough': 20}

_mon = Monitor()


def units(tier):
    groups = QUICK_GROUPS if tier == 'quick' else list(range(1, 231))
    # 'grid': ideal-lattice input whose distances to the site images are exact numbers, some of them exactly the radius
    return [{'k': 'sg', 'n': n, 'r': r} for n in groups for r in range(REPS[tier])] + [{'k': 'grid', 'n': n, 'r': r} for r in range(2 if tier == 'quick' else 40) for n in (1, 2, 47, 123, 221)]


def run_grid(unit, rng, ctx):
    """Positions on the nodes of a 1 A grid in an 8 A (x 8 or 16 A) cell, site on a node, radius 1, 2 or 3 A: the distances
    are square roots of whole numbers, computed exactly, so "below the radius" is decided exactly (a position at exactly
    the radius is not below it)."""
    from gemdat.shape import ShapeAnalyzer
    from pymatgen.core import Lattice, PeriodicSite
    from pymatgen.symmetry.groups import SpaceGroup

    n = unit['n']
    with warnings.catch_warnings():
        warnings.simplefilter('ignore')
        sg = SpaceGroup.from_int_number(n)
        c_len = 8.0 if n in (1, 2, 221) or rng.integers(2) else 16.0
        lat = Lattice(np.diag([8.0, 8.0, c_len]))
        if not sg.is_compatible(lat):
            raise Skip('grid lattice not compatible')
        m = np.asarray(lat.matrix)
        dims = np.array([8, 8, int(c_len)])
        site = rng.integers(0, dims) / dims
        radius = float(rng.choice([1.0, 2.0, 3.0]))
        analyzer = ShapeAnalyzer(sites=[PeriodicSite('Li', site, lat, label='Li0')], lattice=lat, spacegroup=sg)
        ops = list(analyzer.spacegroup)
        idx = np.stack(np.meshgrid(*[np.arange(d_) for d_ in dims], indexing='ij'), axis=-1).reshape(-1, 3)
        if len(ops) * len(idx) > 20000:
            idx = idx[rng.choice(len(idx), size=20000 // len(ops), replace=False)]
        positions = idx / dims
        what = f'{sg.symbol} (#{n}) grid input, cell {np.diag(m).tolist()}, site {site.tolist()}, radius {radius}'
        wit = {'spacegroup': sg.symbol, 'lattice': m, 'radius': radius, 'site': site}
        shapes = analyzer.analyze_positions(positions.copy(), radius=radius)
        # exact squared distances in A^2 (whole numbers): differences of node indices, minimum image per axis
        want_n = at_radius = 0
        for op in ops:
            sym = np.asarray(op.operate(site)) * dims
            dv = idx - np.round(sym)[None, :]
            dv = dv - dims * np.round(dv / dims)
            d2 = (dv * dv).sum(axis=1)
            want_n += int(np.sum(d2 < radius * radius))
            at_radius += int(np.sum(d2 == radius * radius))
            if float(np.abs(sym - np.round(sym)).max()) > 1e-9:
                raise Skip('operation moves the node off the grid')
        got = np.asarray(shapes[0].coords)
        far = float(np.linalg.norm(got, axis=1).max()) if len(got) else 0.0
        ctx.check(len(got) == want_n and far < radius, f'{what}: {len(got)} points collected (farthest {far!r} A); {want_n} (operation, position) pairs are below the radius and {at_radius} lie exactly at it', wit)
        ctx.count('grid_inputs')
        ctx.count('pairs_exactly_at_the_radius', at_radius)
        ctx.case(f'grid{n}-{unit["r"]}', at_radius > 0, sample={'kind': 'grid', 'spacegroup': sg.symbol, 'radius': radius, 'pairs_at_radius': at_radius})


def setup(ctx):
    from gemdat.shape import ShapeAnalyzer

    from .. import retain as _rt

    _mon.attach(ShapeAnalyzer, 'analyze_positions', label='ShapeAnalyzer.analyze_positions', retain=_rt.shapes, scribble=True)
    _mon.attach(ShapeAnalyzer, 'analyze_trajectory', label='ShapeAnalyzer.analyze_trajectory', retain=_rt.shapes, scribble=True)
    _mon.attach(ShapeAnalyzer, 'find_equivalent_positions', label='ShapeAnalyzer.find_equivalent_positions')


def teardown(ctx):
    _mon.flush_counts(ctx)
    _mon.detach_all()


def compatible_lattice(rng, sg, hexagonal_axes=True):
    from pymatgen.core import Lattice

    cs = sg.crystal_system
    a, b, c = rng.uniform(4.0, 9.0, size=3)
    if cs == 'triclinic':
        for _ in range(50):
            try:
                lat = Lattice.from_parameters(a, b, c, *rng.uniform(65, 115, size=3))
                if geom.perp_widths(lat.matrix).min() > 2.5:
                    return lat
            except Exception:  # noqa: BLE001
                continue
        raise Skip('triclinic lattice')
    if cs == 'monoclinic':
        return Lattice.monoclinic(a, b, c, float(rng.uniform(95, 120)))
    if cs == 'orthorhombic':
        return Lattice.orthorhombic(a, b, c)
    if cs == 'tetragonal':
        return Lattice.tetragonal(a, c)
    if cs in ('trigonal', 'hexagonal'):
        if not hexagonal_axes:
            return Lattice.rhombohedral(a, float(rng.uniform(55, 100)))
        return Lattice.hexagonal(a, c)
    return Lattice.cubic(a)


def oracle(ops, m, site_frac, positions, radius):
    """Expected centred Cartesian points (list per op), and knife-edge count."""
    pts = []
    knife = 0
    outside = 0
    inv_cart = np.linalg.inv(m)
    for op in ops:
        sym = np.asarray(op.operate(site_frac))
        d = geom.min_image(m, sym[None, :], positions)[0]
        knife += int(np.sum(np.abs(d - radius) < 1e-7))
        sel = d < radius
        if not sel.any():
            continue
        v = geom.min_image_vectors(m, positions[sel] - sym[None, :])
        close = sym[None, :] + v @ inv_cart
        inv = np.asarray(op.inverse.operate_multi(close))
        pts.append((inv - site_frac[None, :]) @ m)
        if np.any((sym < 0) | (sym >= 1)):
            outside += int(sel.sum())
    return (np.vstack(pts) if pts else np.empty((0, 3))), knife, outside


def compare(ctx, what, wit, shape, want, knife, radius):
    got = np.asarray(shape.coords)
    dist = np.asarray(shape.distances())
    # the views of a shape are views of the same points
    if len(got):
        ctx.check(np.array_equal(np.asarray(shape.x), got[:, 0]) and np.array_equal(np.asarray(shape.y), got[:, 1]) and np.array_equal(np.asarray(shape.z), got[:, 2]) and np.allclose(np.asarray(shape.centroid()), got.mean(axis=0), atol=1e-12) and np.allclose(np.asarray(shape.origin), np.asarray(shape.site.coords), atol=1e-12), f'{what}: x / y / z / centroid() / origin of the shape are not the columns / mean of its points / the site position', wit)
    ok = True
    if len(got):
        far = dist.max()
        ok = ctx.check(bool(far < radius + 1e-7), f'{what}: a collected point is {far:.4f} A from the site centre, radius {radius:.4f}', {**wit, 'worst_point': got[int(np.argmax(dist))]}) and ok
        ok = ctx.check(np.allclose(dist, np.linalg.norm(got, axis=1)), f'{what}: distances() is not the norm of the coordinates', wit) and ok
    else:
        ctx.decided()
    if knife:
        ctx.count('knife_edge_radius_cases')
        ok = ctx.check(abs(len(got) - len(want)) <= knife, f'{what}: {len(got)} points collected, {len(want)} (op, position) pairs are within the radius (+-{knife} on the edge)', wit) and ok
        return ok
    ok = ctx.check(len(got) == len(want), f'{what}: {len(got)} points collected, but {len(want)} (symmetry operation, position) pairs are within the radius', wit) and ok
    if len(got) == len(want) and len(got):
        dg = np.sort(np.linalg.norm(got, axis=1))
        dw = np.sort(np.linalg.norm(want, axis=1))
        ok = ctx.check(float(np.abs(dg - dw).max()) <= 1e-7, f'{what}: point distances are not the source distances to the equivalent site (max dev {np.abs(dg - dw).max():.3e} A)', wit) and ok
        # full coordinates as multisets
        kg = np.lexsort(np.round(got, 5).T[::-1])
        kw = np.lexsort(np.round(want, 5).T[::-1])
        dev = float(np.abs(got[kg] - want[kw]).max())
        if dev > 1e-6:
            # lexsort ties near rounding boundaries: fall back to nearest-neighbour matching
            from scipy.spatial import cKDTree

            dd, _ = cKDTree(want).query(got)
            dev = float(dd.max())
        ok = ctx.check(dev <= 1e-6, f'{what}: collected points are not the inverse-operation images of the source positions (max dev {dev:.3e} A)', wit) and ok
    return ok


def run_unit(unit, rng, ctx):
    if unit.get('k') == 'grid':
        return run_grid(unit, rng, ctx)
    from gemdat.shape import ShapeAnalyzer
    from pymatgen.core import PeriodicSite, Structure
    from pymatgen.symmetry.groups import SpaceGroup

    n = unit['n']
    hexag = not (143 <= n <= 167 and rng.integers(2))
    with warnings.catch_warnings():
        warnings.simplefilter('ignore')
        sg = SpaceGroup.from_int_number(n, hexagonal=hexag) if 143 <= n <= 167 else SpaceGroup.from_int_number(n)
        if sg.symbol.endswith('H') or 'R' not in sg.symbol:
            hexag = True if 143 <= n <= 167 else hexag
        lat = compatible_lattice(rng, sg, hexagonal_axes=not (sg.symbol.startswith('R') and not hexag))
        if not sg.is_compatible(lat):
            raise Skip(f'lattice not compatible with {sg.symbol}')
        m = np.asarray(lat.matrix)
        wmin = geom.perp_widths(m).min()
        radius = float(rng.uniform(0.2, 0.45) * wmin)
        n_sites = int(rng.integers(1, 4))
        sites_frac = rng.uniform(0, 1, size=(n_sites, 3))
        face = rng.uniform(size=(n_sites, 3)) < 0.5
        sites_frac = np.where(face, np.where(rng.uniform(size=(n_sites, 3)) < 0.5, rng.uniform(0, 0.03, size=(n_sites, 3)), rng.uniform(0.97, 1.0, size=(n_sites, 3))), sites_frac)
        use_spglib = unit['r'] % 2 == 1 and n > 1
        if use_spglib:
            try:
                # structure files do not all store the cell in the conventional orientation: half of the structures are
                # handed over with a rigidly rotated lattice matrix (same fractional coordinates, same symmetry)
                lat_in = lat
                if rng.integers(2):
                    from pymatgen.core import Lattice as _Lat

                    lat_in = _Lat(np.asarray(lat.matrix) @ geom.random_rotation(rng).T)
                    ctx.count('structures_given_in_a_rotated_cell')
                st = Structure.from_spacegroup(sg.symbol, lat_in, ['Li'] * n_sites, sites_frac)
                analyzer = ShapeAnalyzer.from_structure(st)
                # the analyzer works in the cell of the structure it was built from (the sites it reports as origins of
                # the shapes are Cartesian positions in that cell)
                ctx.check(np.allclose(np.asarray(analyzer.lattice.matrix), np.asarray(st.lattice.matrix), rtol=0, atol=1e-9), f'{sg.symbol} (#{n}): ShapeAnalyzer.from_structure works in another cell than the structure it was given: {np.asarray(analyzer.lattice.matrix).round(4).tolist()} vs {np.asarray(st.lattice.matrix).round(4).tolist()}', {'structure_lattice': np.asarray(st.lattice.matrix)})
                lat = lat_in
            except Exception:  # noqa: BLE001
                use_spglib = False
        if not use_spglib:
            psites = [PeriodicSite('Li', fc, lat, label=f'Li{i}') for i, fc in enumerate(sites_frac)]
            analyzer = ShapeAnalyzer(sites=psites, lattice=lat, spacegroup=sg)
        ops = list(analyzer.spacegroup)
        an_sites = list(analyzer.sites)
        mm_ = np.asarray(analyzer.lattice.matrix)
        isometric = all(np.allclose((mm_.T @ np.asarray(op.rotation_matrix) @ np.linalg.inv(mm_.T)) @ (mm_.T @ np.asarray(op.rotation_matrix) @ np.linalg.inv(mm_.T)).T, np.eye(3), atol=1e-8) for op in ops)
        if not isometric:
            # spglib matched a pseudo-symmetry within its tolerance: the operations are not isometries of
            # this lattice, which is outside the statement ("compatible lattices"); fall back to the group itself
            ctx.count('spglib_pseudo_symmetry_rejected')
            use_spglib = False
            psites = [PeriodicSite('Li', fc, lat, label=f'Li{i}') for i, fc in enumerate(sites_frac)]
            analyzer = ShapeAnalyzer(sites=psites, lattice=lat, spacegroup=sg)
            ops = list(analyzer.spacegroup)
            an_sites = list(analyzer.sites)
        if len(ops) * len(an_sites) > 400:
            an_sites = an_sites[:1]
            analyzer = ShapeAnalyzer(sites=an_sites, lattice=analyzer.lattice, spacegroup=analyzer.spacegroup)
        m = np.asarray(analyzer.lattice.matrix)
        # positions: uniform + clustered around symmetry images of the sites
        n_uni = int(rng.integers(60, 400))
        pos = [rng.uniform(0, 1, size=(n_uni, 3))]
        inv = np.linalg.inv(m)
        for s in an_sites:
            for op in [ops[int(i)] for i in rng.choice(len(ops), size=min(len(ops), 6), replace=False)]:
                sym = np.asarray(op.operate(s.frac_coords))
                k = int(rng.integers(5, 40))
                pos.append(np.mod(sym[None, :] + (gen.random_unit_vectors(rng, k) * rng.uniform(0, 1.3 * radius, size=(k, 1))) @ inv, 1))
        # positions that coincide bit for bit with a site centre / a symmetry image of it (distance exactly 0:
        # an ideal-crystal first frame)
        exact = [np.asarray(s.frac_coords, dtype=float)[None, :] for s in an_sites]
        for s in an_sites:
            for op in [ops[int(i)] for i in rng.choice(len(ops), size=min(len(ops), 3), replace=False)]:
                sym = np.asarray(op.operate(s.frac_coords), dtype=float)
                if np.all((sym >= 0) & (sym < 1)):
                    exact.append(sym[None, :])
        pos.extend(exact)
        ctx.count('positions_exactly_on_a_site_image', len(exact))
        positions = np.vstack(pos)
        positions[positions == 1] = 0
        what = f'{sg.symbol} (#{n}) {"spglib ops" if use_spglib else "SpaceGroup"} ops={len(ops)} radius={radius:.3f}'
        wit = {'spacegroup': sg.symbol, 'lattice': m, 'radius': radius, 'sites': [s.frac_coords for s in an_sites]}
        handed = positions.copy()
        if unit['r'] % 2 == 0 and rng.integers(2):
            # input positions as they come out of an unwrapped trajectory: every position in its own periodic image
            handed = handed + rng.integers(-2, 3, size=handed.shape)
            positions = handed.copy()
            ctx.count('position_sets_given_in_arbitrary_periodic_images')
        shapes = analyzer.analyze_positions(handed, radius=radius)
        ctx.check(np.array_equal(handed, positions), f'{what}: analyze_positions modified the position array it was given', wit)
        ctx.check(len(shapes) == len(an_sites), f'{what}: {len(shapes)} shapes for {len(an_sites)} sites', wit)
        # boundary sizes: 1 .. 4 input positions (all close to the first site)
        for npos in (1, 2, 3, 4):
            s0_ = np.asarray(an_sites[0].frac_coords)
            small = np.mod(s0_[None, :] + (gen.random_unit_vectors(rng, npos) * rng.uniform(0.1, 0.9 * radius, size=(npos, 1))) @ inv, 1)
            small[small == 1] = 0
            shp_small = analyzer.analyze_positions(small.copy(), radius=radius)
            want_s, knife_s, _ = oracle(ops, m, s0_, small, radius)
            compare(ctx, what + f' [{npos} input position(s)]', wit, shp_small[0], want_s, knife_s, radius)
        ctx.count('tiny_position_sets', 4)
        tot_out = tot_pts = 0
        for s, shp in zip(an_sites, shapes):
            want, knife, outside = oracle(ops, m, np.asarray(s.frac_coords), positions, radius)
            compare(ctx, what + f' site {np.round(s.frac_coords, 4).tolist()}', wit, shp, want, knife, radius)
            tot_out += outside
            tot_pts += len(want)
        # supercell trajectory folded into the unit cell
        sc = tuple(int(x) for x in rng.integers(1, 4, size=3)) if unit['r'] % 2 == 0 else (1, 1, 1)
        sc = (sc[0], min(sc[1], 2), min(sc[2], 2))
        T, N = int(rng.integers(2, 6)), int(rng.integers(5, 40))
        tp = rng.uniform(0, 1, size=(T, N, 3))
        # cluster part of the trajectory around an image of the first site
        s0 = np.asarray(an_sites[0].frac_coords)
        cell = rng.integers(0, np.array(sc), size=(T, N, 3))
        near = np.mod(s0[None, None, :] + (gen.random_unit_vectors(rng, T * N).reshape(T, N, 3) * rng.uniform(0, 1.2 * radius, size=(T, N, 1))) @ inv, 1)
        tp = np.where(rng.uniform(size=(T, N, 1)) < 0.5, (near + cell) / np.array(sc), tp)
        # the simulation cell of the trajectory is the supercell of the analyzer's cell - exactly, thermally expanded
        # / compressed by about 1 %, or oriented differently in space (positions are fractional: what is collected
        # is defined by the analyzer's own lattice)
        traj_cell = np.array(sc)[:, None] * m
        cell_kind = int(rng.integers(4))
        if cell_kind == 1:
            traj_cell = traj_cell * float(rng.choice([1.01, 0.985]))
        elif cell_kind == 2:
            traj_cell = traj_cell @ geom.random_rotation(rng).T
        ctx.count(f'trajectory_cell:{["exact supercell", "expanded / compressed", "reoriented", "exact supercell"][cell_kind]}')
        traj = gen.make_trajectory(traj_cell, gen.species_objects(['Li'] * N), tp)
        sc_arg = None if sc == (1, 1, 1) and rng.integers(2) else sc
        traj_before = snap.traj_content(traj)
        hist_t = int(rng.integers(3))
        if hist_t == 1:
            # history on the trajectory: a displacement-based query left it in displacement representation
            _ = traj.mean_squared_displacement() if rng.integers(2) else traj.displacements
            ctx.count('trajectory_in_displacement_representation', bool(traj.coords_are_displacement))
        elif hist_t == 2 and T >= 2:
            # handed over as displacements + base positions from the start
            dd = np.diff(tp, axis=0, prepend=tp[:1])
            traj = gen.make_trajectory(traj_cell, gen.species_objects(['Li'] * N), dd - np.round(dd), coords_are_displacement=True, base_positions=tp[0].copy())
            traj_before = snap.traj_content(traj)
            ctx.count('trajectory_in_displacement_representation', bool(traj.coords_are_displacement))
        if unit['r'] % 2 == 0 and rng.integers(2):
            # history: the same trajectory object was analysed before (e.g. analyse -> optimise sites -> analyse)
            _ = analyzer.analyze_trajectory(traj, supercell=sc_arg, radius=float(radius * rng.uniform(0.5, 1.0)))
            ctx.count('repeated_trajectory_analyses')
        shapes_t = analyzer.analyze_trajectory(traj, supercell=sc_arg, radius=radius)
        chg = snap.diff_traj_content(traj_before, snap.traj_content(traj))
        ctx.check(chg is None, f'{what} supercell={sc}: analyze_trajectory modified the trajectory it was given: {chg}', wit)
        pos_before = positions.copy()
        P = np.mod(tp, 1)
        P[P == 1] = 0
        folded = np.mod(P.reshape(-1, 3) * np.array(sc), 1)
        folded[folded == 1] = 0
        for s, shp in zip(an_sites, shapes_t):
            want, knife, outside = oracle(ops, m, np.asarray(s.frac_coords), folded, radius)
            compare(ctx, what + f' supercell={sc} site {np.round(s.frac_coords, 4).tolist()}', wit, shp, want, knife, radius)
            tot_out += outside
            tot_pts += len(want)
        # a second analyzer for the SAME space-group type in another setting (the structure shifted rigidly by a
        # random vector: same symbol and number, other operations), used in the same process right afterwards
        if n > 1:
            try:
                st2 = Structure.from_spacegroup(sg.symbol, lat, ['Li'] * n_sites, sites_frac)
                tvec = rng.uniform(0.05, 0.45, size=3)
                st2.translate_sites(list(range(len(st2))), tvec, frac_coords=True, to_unit_cell=True)
                an2 = ShapeAnalyzer.from_structure(st2)
                ops2 = list(an2.spacegroup)
                m2 = np.asarray(an2.lattice.matrix)
                iso2 = all(np.allclose((m2.T @ np.asarray(op.rotation_matrix) @ np.linalg.inv(m2.T)) @ (m2.T @ np.asarray(op.rotation_matrix) @ np.linalg.inv(m2.T)).T, np.eye(3), atol=1e-8) for op in ops2)
            except Exception:  # noqa: BLE001  (spglib could not analyse the synthetic structure)
                an2, iso2 = None, False
            if an2 is not None and len(st2) <= 64:
                # whatever operations from_structure attaches, they are symmetries of the structure it was given:
                # every operation maps the set of atoms onto itself (modulo lattice vectors)
                fr2 = np.mod(np.asarray(st2.frac_coords), 1)
                bad_ops = 0
                for op in ops2:
                    img = np.mod(np.asarray(op.operate_multi(fr2)), 1)
                    dd_ = geom.min_image(np.asarray(st2.lattice.matrix), img, fr2)
                    bad_ops += int(np.any(dd_.min(axis=1) > 0.05))  # spglib matches atoms within its symprec (0.01 A)
                ctx.check(bad_ops == 0, f'{sg.symbol} (#{n}) second analyzer: {bad_ops} of the {len(ops2)} operations attached by from_structure do not map the (rigidly shifted) structure onto itself', {**wit, 'shift': tvec})
            if an2 is not None and iso2 and len(ops2) * len(an2.sites) <= 800:
                site2 = an2.sites[0]
                inv2 = np.linalg.inv(m2)
                wmin2 = geom.perp_widths(m2).min()
                rad2 = float(min(radius, 0.45 * wmin2))
                pos2 = [rng.uniform(0, 1, size=(80, 3))]
                for op in [ops2[int(i)] for i in rng.choice(len(ops2), size=min(len(ops2), 6), replace=False)]:
                    sym = np.asarray(op.operate(site2.frac_coords))
                    pos2.append(np.mod(sym[None, :] + (gen.random_unit_vectors(rng, 15) * rng.uniform(0, 1.2 * rad2, size=(15, 1))) @ inv2, 1))
                pos2 = np.vstack(pos2)
                pos2[pos2 == 1] = 0
                shp2 = an2.analyze_positions(pos2.copy(), radius=rad2)
                want2, knife2, _ = oracle(ops2, m2, np.asarray(site2.frac_coords), pos2, rad2)
                compare(ctx, f'{sg.symbol} (#{n}) second analyzer, structure shifted by {np.round(tvec, 3).tolist()} (spglib ops={len(ops2)})', {**wit, 'shift': tvec}, shp2[0], want2, knife2, rad2)
                ctx.count('second_analyzer_same_group_other_setting')
    ctx.count('points_collected', tot_pts)
    ctx.count('points_from_images_outside_unit_cell', tot_out)
    ctx.count(f'crystal_system:{sg.crystal_system}')
    ctx.count('spglib_operation_sets', use_spglib)
    ctx.count('supercell_cases', sc != (1, 1, 1))
    ctx.case(signature(n, m, [s.frac_coords for s in an_sites], positions), tot_out > 0 and tot_pts >= 5, sample={'spacegroup': sg.symbol, 'number': n, 'operations': len(ops), 'lattice_abc_angles': list(analyzer.lattice.parameters), 'sites': [np.round(s.frac_coords, 4) for s in an_sites], 'radius': radius, 'positions': len(positions), 'supercell': sc, 'points': tot_pts, 'points_via_outside_images': tot_out})
