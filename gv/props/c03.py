"""C03 — transition events are a faithful, complete change-log of the site states."""
from __future__ import annotations

import itertools

import warnings

import numpy as np

from .. import gen, geom, models
from ..core import Skip, signature
from ..monitor import Monitor

ID = 'C03'
LEVEL = 'exploration'
RULE = (
    'cases: (a) EXHAUSTIVE enumeration of every single-atom (site, inner-site) history of length 2..Lmax over '
    '3 sites + no-site (7 per-frame options), realised geometrically (atom placed in the inner sphere, the outer '
    'shell or away from all sites) and pushed through the public pipeline Trajectory.transitions_between_sites '
    'in batches (one atom per history) and, for the shorter lengths, one history per call; (a2) overlapping site spheres of two labels (per-label radii) with inner fraction 0.3-0.8, where the inner site of an atom can differ from its assigned site; (b) random multi-atom '
    'hop histories on random lattices, site sets with 130 - 2100 sites visited at high indices, plus a few very long histories (33 000 - 131 000 frames: frame indices beyond the int16/uint16 ranges).  Oracle: loop model of the change-log computed from the states the object '
    'itself reports.  A case is non-trivial when it contains at least one site change; distinct = SHA-1 of the '
    '(states, inner states) arrays.'
)
RULE += ' Added in rounds 7-9: copies (copy / deepcopy / pickle) of queried objects pointed at another history; a second live object with the same sites and event table but more frames; rows of every atom must be in chronological table order; framework atoms listed before the diffusing atoms.'
ASSUMPTIONS = [
    'states / inner states reported by the Transitions object are taken as the history to be logged (their '
    'geometric correctness is C02)',
    'an all-static history may raise (excluded by the statement)',
]
OPTIONS = [(-1, -1)] + [(s, i) for s in range(3) for i in (s, -1)]
EXH_LMAX = {'quick': 5, 'thorough': 7}
SINGLE_LMAX = {'quick': 3, 'thorough': 4}
CHUNK = 1500
N_RANDOM = {'quick': 320, 'thorough': 40000}
N_LONG = {'quick': 3, 'thorough': 16}
N_MANY = {'quick': 6, 'thorough': 60}
N_OVERLAP = {'quick': 40, 'thorough': 4000}
BUDGET_S = {'quick': 200, 'thorough': 3600}

_mon = Monitor()


def exhaustive(tier):
    L = EXH_LMAX[tier]
    return {
        'complete': True,
        'what': 'all single-atom (site, inner) histories',
        'lengths': [2, L],
        'per_frame_options': len(OPTIONS),
        'histories': sum(len(OPTIONS) ** k for k in range(2, L + 1)),
        'single_call_lengths': [2, SINGLE_LMAX[tier]],
    }


def units(tier):
    out = []
    for L in range(2, EXH_LMAX[tier] + 1):
        n = len(OPTIONS) ** L
        for lo in range(0, n, CHUNK):
            out.append({'k': 'exh', 'L': L, 'lo': lo, 'hi': min(n, lo + CHUNK)})
    for L in range(2, SINGLE_LMAX[tier] + 1):
        n = len(OPTIONS) ** L
        for lo in range(0, n, 60):
            out.append({'k': 'single', 'L': L, 'lo': lo, 'hi': min(n, lo + 60)})
    for i in range(N_RANDOM[tier]):
        out.append({'k': 'rand', 'i': i})
    # very long histories (frame indices beyond the int16 / uint16 ranges)
    for i in range(N_LONG[tier]):
        out.append({'k': 'long', 'i': i})
    # site sets with hundreds to thousands of sites (indices beyond 127 / 255 / 999)
    for i in range(N_MANY[tier]):
        out.append({'k': 'manysites', 'i': i})
    # overlapping site spheres (per-label radii) with an inner fraction < 1: inner site != assigned site
    for i in range(N_OVERLAP[tier]):
        out.append({'k': 'overlap', 'i': i})
    return out


def setup(ctx):
    import gemdat.transitions as gt

    _mon.attach(gt, '_calculate_transition_events', optional=True, label='_calculate_transition_events')
    from .. import retain as _rt

    _mon.attach(gt.Transitions, 'from_trajectory', label='Transitions.from_trajectory', retain=_rt.transitions)
    _mon.attach(gt.Transitions, 'states_prev', label='Transitions.states_prev', retain=_rt.auto, own_result=True)
    _mon.attach(gt.Transitions, 'states_next', label='Transitions.states_next', retain=_rt.auto, own_result=True)


def teardown(ctx):
    _mon.flush_counts(ctx)
    _mon.detach_all()


def history(L, index):
    digs = []
    for _ in range(L):
        digs.append(index % len(OPTIONS))
        index //= len(OPTIONS)
    st = np.array([OPTIONS[d][0] for d in digs])
    inn = np.array([OPTIONS[d][1] for d in digs])
    return st, inn


def fixed_geometry(rng):
    """Three well separated sites + a no-site point in a random cell; radius R, inner fraction 0.5."""
    for _ in range(50):
        kind, rot, m = geom.random_lattice(rng, lo=6.0, hi=10.0)
        R = 0.6
        pts = geom.separated_points(rng, m, 4, 2 * R * 1.3 + 0.2, face_prob=0.3)
        if pts is not None:
            return kind, rot, m, pts[:3], pts[3], R
    raise Skip('geometry')


def realise(rng, m, sites, far, R, f, states, inner):
    """positions [T, N, 3] for states/inner [T, N]."""
    T, N = states.shape
    inv = np.linalg.inv(m)
    dirs = gen.random_unit_vectors(rng, T * N).reshape(T, N, 3)
    pos = np.empty((T, N, 3))
    no = states < 0
    inn = (states >= 0) & (inner >= 0)
    out = (states >= 0) & (inner < 0)
    centre = sites[np.clip(states, 0, None)]
    rad = np.where(inn, 0.4 * f * R, 0.5 * (f + 1) * R)[..., None]
    p = centre + (dirs * rad) @ inv
    far_j = far + (dirs * 0.05) @ inv
    pos = np.where(no[..., None], far_j, p)
    return np.mod(pos, 1), int(inn.sum()), int(out.sum())


def build(rng, states_true, inner_true, f=0.5):
    from pymatgen.core import Structure

    kind, rot, m, sites, far, R = fixed_geometry(rng)
    pos, _, _ = realise(rng, m, sites, far, R, f, states_true, inner_true)
    N = states_true.shape[1]
    fw = np.full((len(pos), 1, 3), 0.123)
    if rng.integers(2):
        # the framework atom is listed first (the diffusing species is not the leading block of atoms)
        traj = gen.make_trajectory(m, gen.species_objects(['S'] + ['Li'] * N), np.concatenate([fw, pos], axis=1))
    else:
        traj = gen.make_trajectory(m, gen.species_objects(['Li'] * N + ['S']), np.concatenate([pos, fw], axis=1))
    st = Structure(lattice=traj.get_lattice(), species=['Li'] * 3, coords=sites, labels=['A', 'B', 'A'])
    return traj, st, R, f, kind, rot


_RDF_TURN = [0]


def check_transitions(tr, ctx, what, allow_static_raise=True):
    """The deciding oracle: events / fills of a Transitions object vs. the loop model."""
    states = np.asarray(tr.states)
    inner = np.asarray(tr.inner_states)
    ev = tr.events
    cols = ['atom index', 'start site', 'destination site', 'start inner site', 'destination inner site', 'time']
    ok = True
    missing_cols = [c for c in cols if c not in ev.columns]
    if missing_cols:
        ctx.check(False, f'{what}: event table lacks columns {missing_cols}')
        return False
    got = [tuple(int(x) for x in row) for row in ev[cols].to_numpy()]
    model = models.events_model(states, inner)
    want = [r[:6] for r in model]
    want_site = [r[:6] for r in model if r[6]]
    from collections import Counter

    cg, cw = Counter(got), Counter(want)
    # (1) exactly one row for every site change
    for r in want_site:
        if cg.get(r, 0) != 1:
            ok = ctx.check(False, f'{what}: site change {r} (atom,s0,s1,i0,i1,t) appears {cg.get(r, 0)}x in events', {'row': r, 'states': states[:, r[0]], 'inner': inner[:, r[0]]}) and ok
            break
    else:
        ctx.decided()
    # (2) no row without a real change
    spurious = [r for r in cg if r not in cw]
    if spurious:
        r = spurious[0]
        a = r[0] if 0 <= r[0] < states.shape[1] else 0
        ok = ctx.check(False, f'{what}: event row {r} corresponds to no change of site or inner site', {'row': r, 'states': states[:, a], 'inner': inner[:, a]}) and ok
    else:
        ctx.decided()
    # (2b) the rows of an atom are a log: they appear in the order in which the changes happened, so that reading
    # the table from top to bottom (as the jump detection does) replays the history
    last_t = {}
    unordered = None
    for r in got:
        if r[0] in last_t and r[5] <= last_t[r[0]] and unordered is None:
            unordered = r
        last_t[r[0]] = r[5]
    if unordered is not None:
        a = unordered[0]
        ok = ctx.check(False, f'{what}: the rows of atom {a} are not in chronological order (row {unordered} follows a row with time {[x[5] for x in got if x[0] == a]})', {'atom': a, 'rows': [x for x in got if x[0] == a][:30]}) and ok
    else:
        ctx.decided()
    # (3) replay reconstructs both columns
    T, N = states.shape
    rep_s = np.empty_like(states)
    rep_i = np.empty_like(inner)
    by_atom = {}
    for r in got:
        by_atom.setdefault(r[0], []).append(r)
    bad_replay = None
    for a in range(N):
        s, i = int(states[0, a]), int(inner[0, a])
        rows = {r[5]: r for r in by_atom.get(a, [])}
        for t in range(T):
            rep_s[t, a], rep_i[t, a] = s, i
            r = rows.get(t)
            if r is not None:
                if (r[1], r[3]) != (s, i) and bad_replay is None:
                    bad_replay = (a, t, r)
                s, i = r[2], r[4]
    if bad_replay is not None or not (np.array_equal(rep_s, states) and np.array_equal(rep_i, inner)):
        bad = np.argwhere((rep_s != states) | (rep_i != inner))
        a = int(bad[0][1]) if len(bad) else bad_replay[0]
        ok = ctx.check(False, f'{what}: replaying the rows of atom {a} does not reconstruct its site / inner-site history', {'atom': a, 'states': states[:, a], 'inner': inner[:, a], 'rows': by_atom.get(a, []), 'first_inconsistent_row': bad_replay}) and ok
    else:
        ctx.decided()
    # (4) previous / next site views
    sp = np.asarray(tr.states_prev())
    sn = np.asarray(tr.states_next())
    mp, mn = models.ffill_model(states), models.bfill_model(states)
    if not np.array_equal(sp, mp):
        a = int(np.argwhere(sp != mp)[0][1]) if sp.shape == mp.shape else 0
        ok = ctx.check(False, f'{what}: states_prev() is not the most recent site (atom {a})', {'states': states[:, a], 'got': sp[:, a] if sp.shape == mp.shape else sp.shape, 'want': mp[:, a]}) and ok
    else:
        ctx.decided()
    if not np.array_equal(sn, mn):
        a = int(np.argwhere(sn != mn)[0][1]) if sn.shape == mn.shape else 0
        ok = ctx.check(False, f'{what}: states_next() is not the next site (atom {a})', {'states': states[:, a], 'got': sn[:, a] if sn.shape == mn.shape else sn.shape, 'want': mn[:, a]}) and ok
    else:
        ctx.decided()
    # the views are also what the per-state RDF analysis reads: running that analysis on the object (every 8th
    # object examined) leaves them what they were
    _RDF_TURN[0] += 1
    if ok and _RDF_TURN[0] % 8 == 0 and len(states) <= 80:
        try:
            with warnings.catch_warnings():
                warnings.simplefilter('ignore')
                tr.radial_distribution(floating_specie='Li', max_dist=2.0, resolution=0.5)
            ran = True
        except Exception:  # noqa: BLE001  (objects assembled from bare arrays cannot be analysed; not this check's subject)
            ran = False
        if ran:
            sp2, sn2 = np.asarray(tr.states_prev()), np.asarray(tr.states_next())
            ok = ctx.check(np.array_equal(sp2, mp) and np.array_equal(sn2, mn) and np.array_equal(np.asarray(tr.states), states), f'{what}: after Transitions.radial_distribution() ran on the object, states_prev() / states_next() / states are no longer the previous / next / current sites of the history', {'states': states[:, :3], 'prev_now': sp2[:, :3], 'next_now': sn2[:, :3]}) and ok
            ctx.count('views_rechecked_after_an_rdf_analysis_of_the_object')
    return ok


def run_pipeline(traj, st, R, f, ctx, what, has_change):
    """Build Transitions through the public API; a raise is a violation iff the history has a change."""
    try:
        return traj.transitions_between_sites(sites=st, floating_specie='Li', site_radius=R, site_inner_fraction=f)
    except Exception as exc:  # noqa: BLE001
        if has_change:
            import traceback

            ctx.check(False, f'{what}: building the event table raised {type(exc).__name__}: {exc}', {'traceback': traceback.format_exc()[-1500:]})
        else:
            ctx.count('static_history_raised')
        return None


def run_overlap(unit, rng, ctx):
    """Sites of two labels whose spheres overlap pairwise; atoms wander in and around the pairs."""
    from pymatgen.core import Structure

    kind, rot, m = geom.random_lattice(rng, lo=7.0, hi=11.0)
    inv = np.linalg.inv(m)
    npair = int(rng.integers(1, 4))
    RA, RB = float(rng.uniform(0.5, 0.9)), float(rng.uniform(0.5, 0.9))
    cent = geom.separated_points(rng, m, npair, 2 * (RA + RB) + 0.5, face_prob=0.3)
    if cent is None:
        raise Skip('geometry')
    off = gen.random_unit_vectors(rng, npair) * rng.uniform(0.2, 0.9, size=(npair, 1)) * min(RA, RB)
    sites = np.concatenate([cent, np.mod(cent + off @ inv, 1)])
    labels = ['A'] * npair + ['B'] * npair
    perm = rng.permutation(2 * npair)
    sites, labels = sites[perm], [labels[i] for i in perm]
    f = float(rng.choice([0.3, 0.5, 0.8]))
    T, N = int(rng.integers(5, 60)), int(rng.integers(1, 4))
    which = rng.integers(2 * npair, size=(T, N))
    stay = rng.uniform(size=(T, N)) < 0.5
    for t in range(1, T):
        which[t] = np.where(stay[t], which[t - 1], which[t])
    pos = np.mod(sites[which] + (gen.random_unit_vectors(rng, T * N).reshape(T, N, 3) * rng.uniform(0, 1.3, size=(T, N, 1)) * max(RA, RB)) @ inv, 1)
    traj = gen.make_trajectory(m, gen.species_objects(['Li'] * N + ['S']), np.concatenate([pos, np.full((T, 1, 3), 0.123)], axis=1))
    st = Structure(lattice=traj.get_lattice(), species=['Li'] * len(sites), coords=sites, labels=labels)
    what = f'overlap {kind}{"/rot" if rot else ""} T={T} N={N} pairs={npair} f={f}'
    try:
        tr = traj.transitions_between_sites(sites=st, floating_specie='Li', site_radius={'A': RA, 'B': RB}, site_inner_fraction=f)
    except Exception as exc:  # noqa: BLE001
        s0 = None
        ctx.count('overlap_pipeline_raised:' + type(exc).__name__)
        ctx.case(None, False)
        return
    s_, i_ = np.asarray(tr.states), np.asarray(tr.inner_states)
    check_transitions(tr, ctx, what)
    ctx.count('overlap_systems')
    ctx.count('frames_with_inner_site_other_than_assigned_site', int(np.sum((i_ >= 0) & (i_ != s_))))
    ctx.case(signature(s_, i_), bool(np.any(s_[1:] != s_[:-1])), sample={'kind': 'overlap', 'lattice': kind, 'T': T, 'pairs': npair, 'f': f, 'inner_ne_state_frames': int(np.sum((i_ >= 0) & (i_ != s_)))})


def run_unit(unit, rng, ctx):
    k = unit['k']
    if k in ('exh', 'single'):
        L = unit['L']
        idx = list(range(unit['lo'], unit['hi']))
        hs = [history(L, i) for i in idx]
        if k == 'exh':
            groups = [hs]
        else:
            groups = [[h] for h in hs]
        for grp in groups:
            st_true = np.stack([h[0] for h in grp], axis=1)
            in_true = np.stack([h[1] for h in grp], axis=1)
            traj, st, R, f, kind, rot = build(rng, st_true, in_true)
            has_change = bool(np.any(st_true[1:] != st_true[:-1]))
            tr = run_pipeline(traj, st, R, f, ctx, f'{k} L={L}', has_change)
            if tr is None:
                ctx.case(None, False)
                continue
            if not (np.array_equal(tr.states, st_true) and np.array_equal(tr.inner_states, in_true)):
                ctx.count('realised_states_differ_from_intended')
            check_transitions(tr, ctx, f'{k} L={L} lattice={kind}{"/rot" if rot else ""}')
            for j in range(st_true.shape[1]):
                nt = bool(np.any(st_true[1:, j] != st_true[:-1, j]))
                ctx.case(signature(st_true[:, j], in_true[:, j]), nt, sample={'kind': k, 'states': st_true[:, j], 'inner': in_true[:, j]} if j == 0 else None)
                ctx.count('histories_with_site_change', nt)
                ctx.count('histories_inner_constant_but_site_changes', nt and bool(np.all(in_true[:, j] == in_true[0, j])))
                ctx.count('histories_inner_only_changes', (not nt) and bool(np.any(in_true[1:, j] != in_true[:-1, j])))
        return
    if k == 'overlap':
        return run_overlap(unit, rng, ctx)
    # random multi-atom pipeline systems
    big = ctx.tier == 'thorough' and unit['i'] % 10 == 0
    T = int(rng.integers(200, 2000)) if big else int(rng.integers(2, 80))
    if k == 'manysites':
        ns = int([130, 260, 1100, 2100, 300, 1500][unit['i'] % 6])
        T = int(rng.integers(20, 60))
        many_atoms = unit['i'] % 6 in (2, 4)
        sys_ = gen.make_many_site_system(rng, ns, n_atoms=int(rng.integers(258, 300)) if many_atoms else int(rng.integers(1, 4)), T=12 if many_atoms else T, inner_fraction=float(rng.choice([1.0, 0.5])), p_move=0.4)
        ctx.count('systems_with_more_than_255_atoms', many_atoms)
        ctx.count('many_site_systems')
    elif k == 'long':
        T = int([33000, 40000, 66000, 70000, 131100][unit['i'] % 5] + rng.integers(0, 500))
        sys_ = gen.make_site_system(rng, T=T, n_atoms=int(rng.integers(1, 3)), n_sites=int(rng.integers(3, 6)), margin=0.04, p_move=float(rng.choice([0.0005, 0.003])), n_framework=1)
        ctx.count('very_long_histories')
    else:
        sys_ = gen.make_site_system(rng, T=T, n_atoms=int(rng.integers(1, 6)), n_sites=int(rng.integers(5, 9)), margin=0.04, p_move=float(rng.choice([0.02, 0.1, 0.3, 0.6])))
    has_change = bool(np.any(sys_.states_true[1:] != sys_.states_true[:-1]))
    try:
        tr = sys_.transitions()
    except Exception as exc:  # noqa: BLE001
        if has_change:
            import traceback

            ctx.check(False, f'rand: building the event table raised {type(exc).__name__}: {exc}', {'traceback': traceback.format_exc()[-1500:], 'states': sys_.states_true})
        else:
            ctx.count('static_history_raised')
        ctx.case(None, False)
        return
    if not np.array_equal(tr.states, sys_.states_true):
        ctx.count('realised_states_differ_from_intended')
    check_transitions(tr, ctx, f'rand {sys_.kind} T={T}')
    if k == 'rand' and unit['i'] % 4 == 2:
        # a second live object with the SAME sites and an identical event table but another history: the same run
        # observed for a few more quiet frames (no new events).  Its views are those of its own state array
        from gemdat.transitions import Transitions

        tail = int(rng.integers(1, 6))
        st_b = np.concatenate([np.asarray(tr.states), np.repeat(np.asarray(tr.states)[-1:], tail, axis=0)])
        in_b = np.concatenate([np.asarray(tr.inner_states), np.repeat(np.asarray(tr.inner_states)[-1:], tail, axis=0)])
        tr_b = Transitions(trajectory=tr.trajectory, diff_trajectory=tr.diff_trajectory, sites=tr.sites, events=tr.events.copy(), states=st_b, inner_states=in_b)
        check_transitions(tr_b, ctx, f'rand {sys_.kind} T={T} [second live object: same sites and event table, {tail} more quiet frames]')
        check_transitions(tr, ctx, f'rand {sys_.kind} T={T} [first object asked again while the second is alive]')
        ctx.count('live_twins_with_identical_event_tables')
    if k == 'rand' and unit['i'] % 4 == 0:
        # a copy of the (already queried) object is another object: pointed at another history, its event
        # table and previous / next views are those of that history
        import copy
        import pickle

        how = str(rng.choice(['copy.copy', 'copy.deepcopy', 'pickle']))
        try:
            cp = copy.copy(tr) if how == 'copy.copy' else (copy.deepcopy(tr) if how == 'copy.deepcopy' else pickle.loads(pickle.dumps(tr)))
            sys2 = gen.make_site_system(rng, T=int(rng.integers(5, 40)), n_atoms=int(rng.integers(1, 4)), n_sites=int(rng.integers(3, 6)), margin=0.04, p_move=0.4)
            tr2 = sys2.transitions()
        except Exception as exc:  # noqa: BLE001  (static second history, or members that cannot be copied)
            ctx.count(f'copy_step_skipped:{type(exc).__name__}')
        else:
            for attr, val in list(vars(tr2).items()):
                if not attr.startswith('_'):
                    setattr(cp, attr, val)
            check_transitions(cp, ctx, f'rand {sys_.kind} T={T} [{how} of the queried object, pointed at another history]')
            ctx.count(f'copies_pointed_at_another_history:{how}')
    st = np.asarray(tr.states)
    ctx.count('first_frame_changes', int(np.sum(st[0] != st[1])) if T > 1 else 0)
    ctx.count('last_frame_changes', int(np.sum(st[-1] != st[-2])) if T > 1 else 0)
    ctx.count('atoms_never_moving', int(np.sum(np.all(st == st[0], axis=0))))
    ctx.count('atoms_never_inner', int(np.sum(np.all(np.asarray(tr.inner_states) < 0, axis=0))))
    ctx.count('direct_site_to_site_moves', int(np.sum((st[1:] != st[:-1]) & (st[1:] >= 0) & (st[:-1] >= 0))))
    ctx.count('events_checked', len(tr.events))
    ctx.case(signature(st, np.asarray(tr.inner_states)), has_change, sample={'kind': 'rand', 'lattice': sys_.kind, 'T': T, 'atoms': st.shape[1], 'n_events': len(tr.events), 'states_atom0_head': st[:20, 0]})
