"""C07 — results depend only on geometry: orientation, origin and labelling invariance.

Metamorphic monitor: the full analysis pipeline is run on one physical system in several
representations (rotated lattice, translated origin, permuted atoms, permuted sites); every
recorded output of the two runs must agree up to the corresponding relabelling.
"""
from __future__ import annotations

import warnings
from collections import Counter
from dataclasses import dataclass, replace

import numpy as np

from .. import gen, geom
from ..core import signature
from ..monitor import Monitor
from . import c02

ID = 'C07'
LEVEL = 'exploration'
RULE = (
    'cases: margin-controlled pipeline systems (lattice zoo incl. strongly triclinic cells; float and per-label '
    'radii; inner fraction 1 / 0.5; 2-7 sites, 1-3 labels, 1-3 diffusing atoms + 2-4 framework atoms).  Each system '
    'is analysed in 5 representations: original, random proper rotation of the lattice matrix, fractional '
    'translation of atoms and sites by a random whole number of voxels (wrapping through the faces), random '
    'permutation of the atoms, random permutation of the sites.  Compared outputs: states, inner states, events, '
    'jumps, jump matrix, jump diffusivity, occupancies, collective pair / solo counts, per-state and species-pair '
    'RDFs, tracer diffusivity, vibration amplitude, density volume, free-energy grid, optimal-path cost.  '
    'Every second system is also analysed with the automatically chosen site radius (site_radius omitted): the radius and the states must be invariant.  Non-trivial = the system has at least 2 jumps and the translation moves at least one atom-frame through a '
    'cell face; distinct = SHA-1 of the original representation.'
)
RULE += ' Added in rounds 5-10: automatic radius under all transformations; coordinates 1e-12..3e-9 below voxel edges with a steered translation; dyadic samples exactly on voxel edges; costs of dijkstra / bellman-ford / dijkstra-exp paths compared between representations.'
RULE += ' Round 13: centre-of-mass diffusivity (of the diffusing atoms and of all atoms) and the Haven ratio are compared across the transformations as well.'
RULE += ' Round 14: 16 (1500) synthetic density volumes with one or two broad blobs: the sites recovered by Volume.to_structure(peaks=...) from the volume rolled by whole voxels are the translated sites.'
ASSUMPTIONS = [
    'comparisons between two runs of the real code (metamorphic); floats at rtol 1e-9, integer arrays exactly',
    'RDF comparison is skipped (and counted) when a pair distance lies within 1e-7 A of a bin edge in the original representation',
    "Transitions.matrix() is compared outside the last row/column under site permutation (known finding K2 of C05 folds no-site events there)",
    'K1 (MDAnalysis PeriodicKDTree misses in strongly skewed boxes) is tolerated only when a direct MDAnalysis call reproduces the miss in the deviating representation',
]
N_CASES = {'quick': 192, 'thorough': 12000}
BUDGET_S = {'quick': 230, 'thorough': 3600}
K1 = c02.K1
ECOLS = ['atom index', 'start site', 'destination site', 'start inner site', 'destination inner site', 'time']
JCOLS = ['atom index', 'start site', 'destination site', 'start time', 'stop time']

_mon = Monitor()
_auto: list = []


def auto_pass(rep_, traj=None):
    """Site assignment with the automatically chosen radius (site_radius omitted)."""
    from pymatgen.core import Structure

    if traj is None:
        traj = gen.make_trajectory(rep_.m, gen.species_objects(rep_.names), rep_.coords, time_step=rep_.dt, metadata={'temperature': rep_.temp})
    sites = Structure(lattice=traj.get_lattice(), species=['Li'] * len(rep_.site_frac), coords=rep_.site_frac, labels=list(rep_.labels))
    del _auto[:]
    try:
        tr = traj.transitions_between_sites(sites=sites, floating_specie='Li', site_inner_fraction=rep_.f)
    except ValueError as exc:
        if 'too close' in str(exc) or 'need at least one array' in str(exc):
            return {'error': str(exc)[:40], 'radius': _auto[-1] if _auto else None}
        raise
    return {'states': np.asarray(tr.states).copy(), 'inner': np.asarray(tr.inner_states).copy(), 'radius': _auto[-1] if _auto else None}


def units(tier):
    # 'blob': sites recovered from a density volume (Volume.to_structure with given peaks) move with the origin
    return [{'k': 'rand', 'i': i} for i in range(N_CASES[tier])] + [{'k': 'blob', 'i': i} for i in range(16 if tier == 'quick' else 1500)]


def run_blob(unit, rng, ctx):
    """One or two broad, well separated density blobs on a grid; the volume is rolled by whole voxels (= all atoms
    translated); the sites recovered from the rolled volume are the translated sites."""
    from gemdat.volume import Volume
    from pymatgen.core import Lattice

    kind, rot, m = geom.random_lattice(rng, lo=6.0, hi=11.0)
    dims = rng.integers(34, 52, size=3)
    n_blob = int(rng.integers(1, 3))
    sig = rng.uniform(1.2, 2.5, size=n_blob)  # voxels; the 10 % contour lies 2.15 sigma <= 5.4 voxels from the peak
    c0 = rng.integers(0, dims)
    centres = [c0] if n_blob == 1 else [c0, (c0 + dims // 2 + rng.integers(-2, 3, size=3)) % dims]
    amp = rng.uniform(0.7, 1.0, size=n_blob) * 5000
    ax = [np.arange(d_) for d_ in dims]
    data = np.zeros(tuple(dims))
    for c_, s_, a_ in zip(centres, sig, amp):
        d2 = sum((np.minimum(np.abs(x_ - cc_), d_ - np.abs(x_ - cc_)) ** 2).reshape([-1 if k_ == j_ else 1 for k_ in range(3)]) for j_, (x_, cc_, d_) in enumerate(zip(ax, c_, dims)))
        data += a_ * np.exp(-d2 / (2 * s_ * s_))
    data = np.round(data)
    what = f'{kind} grid {tuple(int(d_) for d_ in dims)} blobs at {[tuple(int(x_) for x_ in c_) for c_ in centres]} sigma {np.round(sig, 2).tolist()} voxels'
    peaks = np.array([[int(x_) for x_ in c_] for c_ in centres])
    vol = Volume(data=data.copy(), lattice=Lattice(m))
    with warnings.catch_warnings():
        warnings.simplefilter('ignore')
        base = np.asarray(vol.to_structure(specie='Li', peaks=peaks.copy()).frac_coords)
    ok = ctx.check(len(base) == n_blob, f'{what}: to_structure found {len(base)} sites for {n_blob} blobs')
    for _ in range(3 if ok else 0):
        sh = rng.integers(0, dims)
        vol2 = Volume(data=np.roll(data, tuple(int(x_) for x_ in sh), axis=(0, 1, 2)), lattice=Lattice(m))
        with warnings.catch_warnings():
            warnings.simplefilter('ignore')
            got = np.asarray(vol2.to_structure(specie='Li', peaks=(peaks + sh) % dims).frac_coords)
        want = np.mod(base + sh / dims, 1)
        good = len(got) == len(want) and all(float(geom.circ_diff(got, w_[None, :]).max(axis=1).min()) <= 1e-9 for w_ in want)
        ctx.check(good, f'{what}: after translating everything by {tuple(int(x_) for x_ in sh)} voxels the recovered sites are {np.round(got, 5).tolist()}, the translated sites are {np.round(want, 5).tolist()}', {'matrix': m})
        ctx.count('sites_recovered_from_rolled_density_blobs')
    ctx.case(f'blob{unit["i"]}', ok, sample={'kind': 'blob', 'grid': [int(d_) for d_ in dims], 'blobs': n_blob})


def setup(ctx):
    import gemdat.rdf as rdf
    from gemdat import Trajectory
    from gemdat.jumps import Jumps
    from gemdat.volume import Volume

    _mon.attach(Trajectory, 'transitions_between_sites', label='Trajectory.transitions_between_sites')
    _mon.attach(Jumps, '__init__', label='Jumps.__init__')
    import gemdat.transitions as gt

    _mon.attach(gt, '_compute_site_radius', post=lambda result, args, kwargs: _auto.append(float(result)), optional=True, label='_compute_site_radius')
    _mon.attach(Jumps, 'collective', label='Jumps.collective')
    from .. import retain as _rt

    _mon.attach(rdf, 'radial_distribution', label='rdf.radial_distribution', retain=_rt.rdf_dict)
    _mon.attach(rdf, 'radial_distribution_between_species', label='rdf.radial_distribution_between_species', retain=_rt.rdf_one)
    _mon.attach(Trajectory, 'to_volume', label='Trajectory.to_volume', retain=_rt.volume)
    _mon.attach(Volume, 'get_free_energy', label='Volume.get_free_energy', retain=_rt.volume)
    try:
        rdf.track = lambda it, **kw: it
    except Exception:  # noqa: BLE001
        pass


def teardown(ctx):
    _mon.flush_counts(ctx)
    _mon.detach_all()


@dataclass
class Rep:
    m: np.ndarray
    coords: np.ndarray
    names: list
    site_frac: np.ndarray
    labels: list
    arg: object
    f: float
    radii: np.ndarray
    dt: float
    temp: float
    path_atom: int = 0


def analyse(rep: Rep, params, ctx, traj=None):
    """Run the real pipeline on one representation and record its outputs."""
    import networkx as nx
    from gemdat.rdf import radial_distribution, radial_distribution_between_species
    from pymatgen.core import Structure

    out = {}
    if traj is None:
        traj = gen.make_trajectory(rep.m, gen.species_objects(rep.names), rep.coords, time_step=rep.dt, metadata={'temperature': rep.temp})
    out['_traj'] = traj
    sites = Structure(lattice=traj.get_lattice(), species=['Li'] * len(rep.site_frac), coords=rep.site_frac, labels=list(rep.labels))
    tr = traj.transitions_between_sites(sites=sites, floating_specie='Li', site_radius=rep.arg, site_inner_fraction=rep.f)
    out['states'] = np.asarray(tr.states).copy()
    out['inner'] = np.asarray(tr.inner_states).copy()
    out['events'] = [tuple(int(x) for x in r) for r in tr.events[ECOLS].to_numpy()]
    out['tmatrix'] = np.asarray(tr.matrix()).copy()
    out['occupancy'] = np.array([s.species.num_atoms for s in tr.occupancy()])
    try:
        j = tr.jumps()
        out['jumps'] = [tuple(int(x) for x in r) for r in j.data[JCOLS].to_numpy()]
        out['jmatrix'] = np.asarray(j.matrix()).copy()
        out['jdiff'] = float(j.jump_diffusivity(3))
        out['counter'] = dict(j.counter())
        if len(out['jumps']) >= 1:
            coll = j.collective(max_dist=params['coll_dist'])
            out['n_solo'] = int(coll.n_solo_jumps)
            out['n_coll_pairs'] = len(coll.collective)
            out['window'] = int(coll.max_steps)
    except ValueError as exc:
        if 'No jumps found' not in str(exc):
            raise
        out['jumps'] = []
    rd = radial_distribution(transitions=tr, floating_specie='Li', max_dist=params['max_dist'], resolution=params['res'])
    out['rdf_state'] = {(st, item.label): np.asarray(item.y).copy() for st, coll_ in rd.items() for item in coll_}
    others = sorted(set(rep.names))
    out['rdf_pair'] = {}
    for s2 in others:
        r = radial_distribution_between_species(trajectory=traj, specie_1='Li', specie_2=s2, max_dist=params['max_dist'], resolution=params['res'])
        out['rdf_pair'][s2] = np.asarray(r.y).copy()
    li = traj.filter('Li')
    mm = li.metrics()
    out['tracer_D'] = float(mm.tracer_diffusivity(dimensions=3))
    out['vib'] = float(mm.vibration_amplitude())
    # centre-of-mass motion of the diffusing atoms and of the whole cell content (mass-weighted; several species)
    out['com_D'] = float(mm.tracer_diffusivity_center_of_mass(dimensions=3))
    out['com_D_all'] = float(traj.metrics().tracer_diffusivity_center_of_mass(dimensions=3))
    try:
        out['haven'] = float(mm.haven_ratio(dimensions=3))
    except ZeroDivisionError:
        out['haven'] = None
    vol = li.to_volume(resolution=params['grid_res'])
    out['volume'] = np.asarray(vol.data).copy()
    F = vol.get_free_energy(temperature=rep.temp)
    out['free_energy'] = np.asarray(F.data).copy()
    start = tuple(int(x) for x in vol.frac_coords_to_voxel(np.mod(rep.coords[0, rep.path_atom], 1)))
    stop = tuple(int(x) for x in vol.frac_coords_to_voxel(np.mod(rep.coords[-1, rep.path_atom], 1)))
    out['path_endpoints'] = (start, stop)
    try:
        p = F.optimal_path(start=start, stop=stop)
        out['path_cost'] = float(p.total_energy)
        out['path_len'] = len(p.sites)
    except (nx.NetworkXNoPath, nx.NodeNotFound):
        out['path_cost'] = None
    # the optimum of every path method is a property of the landscape: sum of edge weights / of capped exponential
    # weights along the returned path, recomputed here from the free energies of its voxels
    out['method_costs'] = {}
    Fd_ = np.asarray(F.data)
    for meth in ('dijkstra', 'bellman-ford', 'dijkstra-exp'):
        try:
            pm = F.optimal_path(start=start, stop=stop, method=meth)
            sv = [tuple(int(x_ % n_) for x_, n_ in zip(s_, Fd_.shape)) for s_ in pm.sites]
            w_ = [0.5 * (Fd_[a_] + Fd_[b_]) for a_, b_ in zip(sv[:-1], sv[1:])]
            out['method_costs'][meth] = float(sum(min(np.exp(x_), 1e7) for x_ in w_)) if meth == 'dijkstra-exp' else float(sum(w_))
        except (nx.NetworkXNoPath, nx.NodeNotFound):
            out['method_costs'][meth] = None
    return out


def feq(a, b, rtol=1e-9):
    if a is None or b is None:
        return a is None and b is None
    return abs(a - b) <= rtol * max(abs(a), abs(b), 1e-300)


def compare(base, other, name, amap, smap, shift, ctx, what, wit, skip_rdf, site_perm, skip_vol=False):
    """amap[new floating atom index] = old index; smap[new site index] = old index; shift = voxel roll."""
    S = len(smap)
    inv_s = {-1: -1, **{int(old): new for new, old in enumerate(smap)}}
    inv_a = {int(old): new for new, old in enumerate(amap)}
    w = f'{what} [{name}]'

    def relabel_states(arr):
        # express base array in the other representation's labelling
        r = np.vectorize(lambda s: inv_s[int(s)])(arr) if arr.size else arr
        return r[:, amap]

    ok = True
    for key in ('states', 'inner'):
        want = relabel_states(base[key])
        if not np.array_equal(other[key], want):
            ok = False
            bad = np.argwhere(other[key] != want)
            t, a = (int(x) for x in bad[0])
            ctx.check(False, f'{w}: {key} differ in {len(bad)} atom-frames, e.g. frame {t} atom {a}: {int(other[key][t, a])} vs {int(want[t, a])} (relabelled original)', wit)
        else:
            ctx.decided()
    if not ok:
        return False
    ev_want = Counter((inv_a[a], inv_s[s0], inv_s[s1], inv_s[i0], inv_s[i1], t) for a, s0, s1, i0, i1, t in base['events'])
    ctx.check(Counter(other['events']) == ev_want, f'{w}: event tables differ beyond relabelling', wit)
    j_want = Counter((inv_a[a], inv_s[o], inv_s[d], s, e) for a, o, d, s, e in base['jumps'])
    ctx.check(Counter(other['jumps']) == j_want, f'{w}: jump tables differ beyond relabelling: only original {list((j_want - Counter(other["jumps"])).elements())[:2]} only transformed {list((Counter(other["jumps"]) - j_want).elements())[:2]}', wit)
    perm = np.array(smap)
    if 'jmatrix' in base and 'jmatrix' in other:
        ctx.check(np.array_equal(other['jmatrix'], base['jmatrix'][np.ix_(perm, perm)]), f'{w}: jump matrix is not the permuted original', wit)
        ctx.check(feq(other['jdiff'], base['jdiff']), f'{w}: jump diffusivity {other["jdiff"]!r} vs {base["jdiff"]!r}', wit)
        ctx.check(other.get('counter') == base.get('counter'), f'{w}: per-label jump counters differ: {other.get("counter")} vs {base.get("counter")}', wit)
    for key in ('n_solo', 'n_coll_pairs', 'window'):
        if key in base or key in other:
            ctx.check(base.get(key) == other.get(key), f'{w}: collective-jump result {key}: {other.get(key)} vs {base.get(key)}', wit)
    tm_want = base['tmatrix'][np.ix_(perm, perm)]
    if site_perm:
        # cells touched by the K2 fold (last row/col of either representation) are not compared
        mask = np.ones((S, S), dtype=bool)
        mask[S - 1, :] = mask[:, S - 1] = False
        old_last = inv_s[S - 1]
        mask[old_last, :] = mask[:, old_last] = False
        ctx.check(np.array_equal(other['tmatrix'][mask], tm_want[mask]), f'{w}: Transitions.matrix() differs beyond relabelling (outside the last row/column)', wit)
    else:
        ctx.check(np.array_equal(other['tmatrix'], tm_want), f'{w}: Transitions.matrix() differs', wit)
    ctx.check(np.allclose(other['occupancy'], base['occupancy'][perm], rtol=1e-12, atol=1e-15), f'{w}: site occupancies differ beyond relabelling', wit)
    if not skip_rdf:
        ks = set(k for k, v in base['rdf_state'].items() if v.sum()) | set(k for k, v in other['rdf_state'].items() if v.sum())
        for k in sorted(ks):
            a, b = base['rdf_state'].get(k), other['rdf_state'].get(k)
            if a is None or b is None or not np.array_equal(a, b):
                ctx.check(False, f'{w}: per-state RDF {k} differs: {None if b is None else b.tolist()} vs {None if a is None else a.tolist()}', wit)
                break
        else:
            ctx.decided()
        for k in base['rdf_pair']:
            a, b = base['rdf_pair'][k], other['rdf_pair'].get(k)
            if b is None or not np.allclose(a, b, rtol=1e-9, atol=1e-12):
                ctx.check(False, f'{w}: species-pair RDF Li-{k} differs', wit)
                break
        else:
            ctx.decided()
    ctx.check(feq(other['tracer_D'], base['tracer_D']), f'{w}: tracer diffusivity {other["tracer_D"]!r} vs {base["tracer_D"]!r}', wit)
    ctx.check(feq(other['vib'], base['vib'], 1e-8), f'{w}: vibration amplitude {other["vib"]!r} vs {base["vib"]!r}', wit)
    for k_ in ('com_D', 'com_D_all'):
        ctx.check(feq(other[k_], base[k_], 1e-7) or abs(other[k_] - base[k_]) <= 1e-9 * abs(base['tracer_D']), f'{w}: centre-of-mass diffusivity ({k_}) {other[k_]!r} vs {base[k_]!r}', wit)
    if base['haven'] is not None and other['haven'] is not None and base['com_D'] > 1e-6 * base['tracer_D']:
        ctx.check(feq(other['haven'], base['haven'], 1e-6), f'{w}: Haven ratio {other["haven"]!r} vs {base["haven"]!r}', wit)
    if skip_vol:
        return True
    if other['volume'].shape != base['volume'].shape:
        ctx.check(False, f'{w}: density grid shape {other["volume"].shape} vs {base["volume"].shape}', wit)
    else:
        ctx.check(np.array_equal(other['volume'], np.roll(base['volume'], shift, axis=(0, 1, 2))), f'{w}: density volume is not the original rolled by {shift}', wit)
        ctx.check(np.allclose(other['free_energy'], np.roll(base['free_energy'], shift, axis=(0, 1, 2)), rtol=1e-9, atol=0), f'{w}: free-energy grid is not the original rolled by {shift}', wit)
        for meth in base.get('method_costs', {}):
            ctx.check(feq(other['method_costs'].get(meth), base['method_costs'][meth], 1e-9), f'{w}: cost of the optimal path with method={meth!r} is {other["method_costs"].get(meth)!r} vs {base["method_costs"][meth]!r} in the original', wit)
        ctx.check(feq(other['path_cost'], base['path_cost'], 1e-9), f'{w}: optimal path cost {other["path_cost"]!r} (endpoints {other["path_endpoints"]}) vs {base["path_cost"]!r} (endpoints {base["path_endpoints"]})', wit)
    return True


def classify_k1(rep: Rep, out, ctx, what):
    """(deviations of the states from the brute-force assignment explained by K1, unexplained)."""
    nLi = rep.names.count('Li')
    pos = np.mod(rep.coords[:, :nLi], 1)
    pos[pos == 1] = 0
    flat = pos.reshape(-1, 3)
    d = geom.min_image(rep.m, flat, rep.site_frac)
    n_k1 = n_other = 0
    for arr, fac in ((out['states'], 1.0), (out['inner'], rep.f)):
        a = arr.reshape(-1)
        rr = rep.radii[None, :] * fac
        must = d < rr - c02.BAND
        may = d < rr + c02.BAND
        miss = np.nonzero((a < 0) & must.any(axis=1))[0]
        wrong = np.nonzero((a >= 0) & ~may[np.arange(len(a)), np.clip(a, 0, len(rep.site_frac) - 1)])[0]
        n_other += len(wrong)
        for k in miss[: c02.MAX_CLASSIFY]:
            s = int(np.argmax(must[k]))
            try:
                grp = c02.site_group(rep.labels if isinstance(rep.arg, dict) else None, s, len(rep.site_frac))
                found, brute = c02.mda_pair_found(rep.m, flat, rep.site_frac[grp], grp.index(s), float(rep.radii[s] * fac), float(rep.radii.max()), int(k))
            except Exception:  # noqa: BLE001
                found, brute = True, True
            if (not found) and brute:
                n_k1 += 1
            else:
                n_other += 1
    return n_k1, n_other


def run_unit(unit, rng, ctx):
    if unit.get('k') == 'blob':
        return run_blob(unit, rng, ctx)
    f = float(rng.choice([1.0, 0.5, 0.5]))
    sys_ = gen.make_site_system(rng, T=int(rng.integers(20, 60)), n_sites=int(rng.integers(2, 8)), n_atoms=int(rng.choice([1, 2, 2, 3, 3, 4])), inner_fraction=f, margin=0.04, p_move=float(rng.choice([0.2, 0.4])), n_framework=int(rng.integers(2, 5)), lo=5.0, hi=9.0)
    base_rep = Rep(sys_.matrix, np.mod(sys_.coords, 1), list(sys_.species_names), sys_.site_frac.copy(), list(sys_.labels), sys_.site_radius_arg, f, sys_.radii.copy(), sys_.time_step, sys_.temperature)
    lengths = np.linalg.norm(sys_.matrix, axis=1)
    params = {'coll_dist': float(rng.uniform(1.0, 4.0)), 'max_dist': float(rng.uniform(2.0, 5.0)), 'res': float(rng.choice([0.25, 0.5])), 'grid_res': float(lengths.min() / rng.uniform(3.2, 6.8))}
    dims = np.array([int(L // params['grid_res']) for L in lengths])
    # a quarter of the systems: a few diffusing-atom coordinates sit 1e-12 .. 3e-9 below a voxel edge, and the
    # translation is chosen so that one of them ends up just below the upper cell face
    force_shift = None
    if unit['i'] % 4 == 1:
        nLi_ = sys_.n_floating
        for _ in range(3):
            t_, a_, c_ = int(rng.integers(len(base_rep.coords))), int(rng.integers(nLi_)), int(rng.integers(3))
            j_ = int(np.floor(base_rep.coords[t_, a_, c_] * dims[c_]))
            base_rep.coords[t_, a_, c_] = (j_ + 1) / dims[c_] - 10.0 ** (-float(rng.uniform(8.5, 12.0)))
            if force_shift is None:
                force_shift = (c_, int((dims[c_] - (j_ + 1)) % dims[c_]))
        ctx.count('systems_with_coordinates_just_below_a_voxel_edge')
    what = f'{sys_.kind}{"/rot" if sys_.rotated else ""} sites={len(sys_.site_frac)} labels={sys_.labels} radius={"dict" if isinstance(sys_.site_radius_arg, dict) else "float"} f={f}'
    wit = {'matrix': sys_.matrix, 'site_frac': sys_.site_frac, 'labels': sys_.labels, 'site_radius': sys_.site_radius_arg, 'params': params}
    nLi = sys_.n_floating
    N = len(sys_.species_names)
    S = len(sys_.site_frac)
    ident_a = np.arange(nLi)
    ident_s = np.arange(S)
    with warnings.catch_warnings():
        warnings.simplefilter('ignore')
        try:
            base = analyse(base_rep, params, ctx)
        except ValueError as exc:
            if 'need at least one array' in str(exc):
                ctx.count('static_history_no_events')
                ctx.case(None, False)
                return
            raise
        # RDF bin-edge knife edges
        P = base_rep.coords
        skip_rdf = False
        for t in range(len(P)):
            d = geom.min_image(sys_.matrix, P[t, :nLi], P[t])
            if np.any((np.abs(d / params['res'] - np.round(d / params['res'])) * params['res'] < 1e-7) & (d > 0)):
                skip_rdf = True
        ctx.count('rdf_comparison_skipped_bin_edge', skip_rdf)
        # representations
        reps = []
        Q = geom.random_rotation(rng)
        reps.append(('rotation', replace(base_rep, m=sys_.matrix @ Q.T), ident_a, ident_s, (0, 0, 0), False))
        kshift = tuple(int(x) for x in rng.integers(0, dims))
        if force_shift is not None:
            kshift = tuple(force_shift[1] if ax == force_shift[0] else kshift[ax] for ax in range(3))
        v = np.array(kshift) / dims
        reps.append(('translation', replace(base_rep, coords=np.mod(base_rep.coords + v, 1), site_frac=np.mod(base_rep.site_frac + v, 1)), ident_a, ident_s, kshift, False))
        perm_all = np.concatenate([rng.permutation(nLi), nLi + rng.permutation(N - nLi)])
        # keep floating atoms first is not required by the API, so also interleave species
        order = rng.permutation(N)
        li_positions = [i for i in order if i < nLi]
        if nLi >= 2 and li_positions == sorted(li_positions):
            # make sure the relative order of the diffusing atoms really changes
            rev = iter(sorted(li_positions, reverse=True))
            order = np.array([next(rev) if i < nLi else i for i in order])
            li_positions = [i for i in order if i < nLi]
        amap = np.array(li_positions)
        reps.append(('atom permutation', replace(base_rep, coords=base_rep.coords[:, order], names=[base_rep.names[i] for i in order], path_atom=int(np.nonzero(order == 0)[0][0])), amap, ident_s, (0, 0, 0), False))
        sperm = rng.permutation(S)
        arg = base_rep.arg
        reps.append(('site permutation', replace(base_rep, site_frac=base_rep.site_frac[sperm], labels=[base_rep.labels[i] for i in sperm], radii=base_rep.radii[sperm]), ident_a, sperm, (0, 0, 0), True))
        del perm_all, arg
        crossed = int(np.sum(np.floor(base_rep.coords[:, :nLi] + v) != 0))
        k1_base = None
        for name, rep, amap_, smap_, shift, site_perm in reps:
            try:
                # a representation that differs only in the site set is analysed on the SAME trajectory
                # object (state left behind by the first analysis must not leak into the second)
                other = analyse(rep, params, ctx, traj=base['_traj'] if site_perm and unit['i'] % 2 == 0 else None)
            except ValueError as exc:
                if 'need at least one array' in str(exc):
                    # the transformed run sees no events although the original has some -> states must differ
                    ctx.check(False, f'{what} [{name}]: transformed system has no transition events, the original has {len(base["events"])}', wit)
                    continue
                raise
            # pre-check of the states so that K1 can be classified before a violation is raised
            inv_s = {-1: -1, **{int(old): new for new, old in enumerate(smap_)}}
            want = np.vectorize(lambda s: inv_s[int(s)])(base['states'])[:, amap_]
            want_i = np.vectorize(lambda s: inv_s[int(s)])(base['inner'])[:, amap_]
            if not (np.array_equal(other['states'], want) and np.array_equal(other['inner'], want_i)):
                if k1_base is None:
                    k1_base = classify_k1(base_rep, base, ctx, what)
                k1_o = classify_k1(rep, other, ctx, what)
                n_diff = int(np.sum(other['states'] != want) + np.sum(other['inner'] != want_i))
                if (k1_base[0] + k1_o[0]) > 0 and (k1_base[1] + k1_o[1]) == 0 and n_diff <= k1_base[0] + k1_o[0]:
                    ctx.known_finding(K1, f'{what} [{name}]: {n_diff} state entries differ; all explained by PeriodicKDTree misses ({k1_base[0]} in the original, {k1_o[0]} in the transformed representation)')
                    ctx.decided()
                    continue
            skip_vol = False
            if name == 'translation':
                # a coordinate on a voxel edge may round into either voxel after the shift
                for cc in (base_rep.coords[:, :nLi], rep.coords[:, :nLi]):
                    x = cc * dims
                    if np.any(np.abs(x - np.round(x)) < 1e-13):
                        skip_vol = True
                ctx.count('volume_comparison_skipped_voxel_edge', skip_vol)
            compare(base, other, name, amap_, smap_, shift, ctx, what, wit, skip_rdf, site_perm, skip_vol)
            ctx.count(f'transformations:{name}')
        # the same invariances with the automatically chosen site radius (site_radius omitted)
        if unit['i'] % 2 == 1:
            ab = auto_pass(base_rep)
            dsite = geom.min_image(sys_.matrix, base_rep.site_frac, base_rep.site_frac)[np.triu_indices(S, k=1)]
            ctx.count('auto_radius_limited_by_site_separation', ab.get('radius') is not None and ab['radius'] < 0.5 * dsite.min())
            for name, rep, amap_, smap_, shift, site_perm in reps:
                ao = auto_pass(rep)
                w = f'{what} [{name}, automatic radius]'
                if ab.get('radius') is not None and ao.get('radius') is not None:
                    ctx.check(feq(ab['radius'], ao['radius'], 1e-9), f'{w}: automatically chosen site radius {ao["radius"]!r} vs {ab["radius"]!r} in the original', wit)
                if 'error' in ab or 'error' in ao:
                    ctx.check(('error' in ab) == ('error' in ao), f'{w}: one representation raises ({ao.get("error")!r}), the other does not ({ab.get("error")!r})', wit)
                    continue
                inv_s = {-1: -1, **{int(old): new for new, old in enumerate(smap_)}}
                same = all(np.array_equal(ao[key], np.vectorize(lambda s_: inv_s[int(s_)])(ab[key])[:, amap_]) for key in ('states', 'inner'))
                if not same and ab.get('radius') is not None:
                    rr = float(ab['radius'])
                    kb = classify_k1(replace(base_rep, radii=np.full(S, rr), arg=rr), ab, ctx, what)
                    ko = classify_k1(replace(rep, radii=np.full(S, rr), arg=rr), ao, ctx, what)
                    if (kb[0] + ko[0]) > 0 and (kb[1] + ko[1]) == 0:
                        ctx.known_finding(K1, f'{w}: state entries differ; all explained by PeriodicKDTree misses ({kb[0]} in the original, {ko[0]} in the transformed representation)')
                        ctx.decided()
                        continue
                ctx.check(same, f'{w}: site states differ beyond relabelling', wit)
                ctx.count(f'auto_radius_transformations:{name}')
    # density volumes of samples EXACTLY on voxel edges (incl. 0.0): on axes whose voxel count is a power of two the
    # coordinates are multiples of 1/64, so the edge k/n, the shift, the wrap and any representation switch are exact
    # in binary floating point and the translated volume is well defined (other axes: samples well inside voxels)
    if unit['i'] % 4 == 3:
        res2 = float(lengths.min() / 4.0001)
        dims2 = np.array([int(L // res2) for L in lengths])
        T2, N2 = int(rng.integers(2, 8)), int(rng.integers(1, 4))
        cd = np.empty((T2, N2, 3))
        for c_ in range(3):
            if dims2[c_] in (2, 4, 8):
                cd[:, :, c_] = rng.integers(0, 64, size=(T2, N2)) / 64.0
                edge = rng.uniform(size=(T2, N2)) < 0.4
                cd[:, :, c_] = np.where(edge, rng.integers(0, dims2[c_], size=(T2, N2)) / dims2[c_], cd[:, :, c_])
            else:
                cd[:, :, c_] = (rng.integers(0, dims2[c_], size=(T2, N2)) + rng.uniform(0.3, 0.7, size=(T2, N2))) / dims2[c_]
        k2 = tuple(int(x) for x in rng.integers(0, dims2))
        v2 = np.array(k2) / dims2
        with warnings.catch_warnings():
            warnings.simplefilter('ignore')
            va = gen.make_trajectory(sys_.matrix, gen.species_objects(['Li'] * N2), cd).to_volume(resolution=res2)
            tb = gen.make_trajectory(sys_.matrix, gen.species_objects(['Li'] * N2), np.mod(cd + v2, 1))
            if rng.integers(2):
                _ = tb.displacements
            vb = tb.to_volume(resolution=res2)
        da, db = np.asarray(va.data), np.asarray(vb.data)
        if ctx.check(da.shape == db.shape == tuple(dims2), f'{what} [samples on voxel edges]: grids {da.shape} / {db.shape}, expected {tuple(dims2)}', wit):
            ctx.check(np.array_equal(db, np.roll(da, k2, axis=(0, 1, 2))), f'{what} [samples on voxel edges]: density volume of the system translated by {k2} voxels is not the original rolled by {k2}', {**wit, 'coords': cd, 'shift': k2, 'grid': dims2})
        ctx.count('edge_sample_volumes_compared')
        ctx.count('samples_exactly_on_a_voxel_edge', int(sum(np.sum(cd[:, :, c_] * dims2[c_] == np.round(cd[:, :, c_] * dims2[c_])) for c_ in range(3) if dims2[c_] in (2, 4, 8))))
    ctx.count('atom_frames_moved_through_a_face_by_translation', crossed)
    ctx.count(f'lattice:{sys_.kind}')
    ctx.count('jumps_in_original', len(base['jumps']))
    ctx.count('paths_found', base['path_cost'] is not None)
    ctx.case(signature(sys_.matrix, base_rep.coords, sys_.site_frac, sys_.labels), len(base['jumps']) >= 2 and crossed > 0, sample={'lattice': sys_.kind, 'sites': S, 'labels': sys_.labels, 'atoms': nLi, 'T': len(P), 'jumps': len(base['jumps']), 'voxel_shift': kshift, 'grid': dims.tolist(), 'site_permutation': sperm.tolist(), 'atom_order': order.tolist(), 'path_cost': base['path_cost']})
