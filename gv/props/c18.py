"""C18 — orientation vectors are minimum-image bonds; transforms / autocorrelation exact."""
from __future__ import annotations

import warnings

import numpy as np

from .. import gen, geom
from ..core import Skip, signature
from ..monitor import Monitor

ID = 'C18'
LEVEL = 'exploration'
RULE = (
    'cases: 1-4 (two cases per quick run: 66-81, i.e. more than 256 satellites) tetrahedral clusters (centre + 4 satellites, bond 0.9-1.6 A, satellites +-5 % unequal) with an '
    'independent random rotation per frame and a random-walk translation that carries the bonds across cell faces, '
    'in lattice-zoo cells (incl. rotated) at least 5 bond lengths wide; atom order shuffled, spectator species '
    'present; 2-120 frames (thorough up to 400).  Checked: vectors, lengths, normalize, symmetrize for all 20 point '
    'groups of the triclinic..cubic systems (sym_group) and for explicit operation stacks (sym_ops), transform with '
    'random 3x3 matrices, spherical round trip, autocorrelation.  Oracle: ground-truth bond vectors (image '
    'enumeration), group orbits from pymatgen operation matrices, O(T^2) autocorrelation.  Non-trivial = at least one '
    'bond crosses a cell face in some frame and there are >= 2 clusters; distinct = SHA-1 of (cell, positions).'
)
RULE += ' Added in rounds 7-10: unbonded atoms of the satellite species anywhere in the atom table; a second system with the same species sequence and other bonding; near-identity / tiny-rotation / nearly singular / very large transform matrices. Round 16: symmetrize called with a named group AND explicit operations (the operations win). Round 13: clusters of different bond length in one cell (up to 1.3 x the shortest) with an unbonded satellite-species atom between 1.5 x the shortest distance of the cell and 1.5 x the shortest bond of a long-bond centre.'
ASSUMPTIONS = [
    'bond length below a fifth of the smallest perpendicular cell width; clusters separated by more than 1.5 bond lengths',
    'pymatgen PointGroup operation matrices are trusted (orthogonality and closure are verified at run time)',
    'K8 (symmetrize(sym_ops=single 3x3 matrix) reshapes to (1,3,3) instead of (3,3,1); pinned by the offline test_symmetrize) tolerated only for a 2-D sym_ops argument whose output equals the broadcast model of that mechanism',
    'K5 (fft_autocorrelation inverse FFT of length 2T-2) tolerated only when the output equals the closed-form aliasing model of exactly that mechanism',
]
N_CASES = {'quick': 260, 'thorough': 30000}
BUDGET_S = {'quick': 220, 'thorough': 3600}
GROUPS = ['1', '-1', '2', 'm', '2/m', '222', 'mm2', 'mmm', '4', '-4', '4/m', '422', '4mm', '-42m', '4/mmm', '23', 'm-3', '432', '-43m', 'm-3m']
K5 = 'K5-fft-autocorrelation-length'
K8 = 'K8-symmetrize-single-matrix-reshape'

_mon = Monitor()


def units(tier):
    return [{'k': 'rand', 'i': i} for i in range(N_CASES[tier])]


def setup(ctx):
    import gemdat.orientations as go
    import gemdat.utils as gu

    _mon.attach(go.Orientations, '__post_init__', label='Orientations.__post_init__')
    for nm in ('normalize', 'symmetrize', 'transform', 'autocorrelation'):
        _mon.attach(go.Orientations, nm, label=f'Orientations.{nm}')
    _mon.attach(go.Orientations, 'vectors_spherical', label='Orientations.vectors_spherical')
    _mon.attach(gu, 'fft_autocorrelation', also=[(go, 'fft_autocorrelation')], label='utils.fft_autocorrelation')


def teardown(ctx):
    _mon.flush_counts(ctx)
    _mon.detach_all()


TETRA = np.array([[1, 1, 1], [1, -1, -1], [-1, 1, -1], [-1, -1, 1]], dtype=float) / np.sqrt(3)


def true_autocorr(v):
    """v[T, B, 3] -> ac[B, T]: time-origin average of the dot product, normalised at lag 0."""
    T = v.shape[0]
    out = np.zeros((v.shape[1], T))
    for tau in range(T):
        out[:, tau] = np.mean(np.sum(v[: T - tau] * v[tau:], axis=2), axis=0)
    return out / out[:, :1]


def alias_model(v):
    """Closed-form model of K5: power spectrum of the zero-padded length-(2T-1) signal, inverted as
    if it were the half spectrum of a length-(2T-2) real signal (own DFT, no numpy FFT)."""
    T, B, _ = v.shape
    n = 2 * T - 1
    N = 2 * T - 2
    t = np.arange(T)
    k = np.arange(T)
    ang = 2 * np.pi * np.outer(k, t) / n
    cos, sin = np.cos(ang), np.sin(ang)
    m = np.arange(T)
    out = np.zeros((B, T))
    for c in range(3):
        x = v[:, :, c]  # [T, B]
        re = cos @ x
        im = -sin @ x
        P = re**2 + im**2  # [T(k), B]
        inv = np.zeros((T, B))
        for mm in m:
            acc = P[0].copy()
            if T > 2:
                acc = acc + 2 * np.sum(P[1 : T - 1] * np.cos(2 * np.pi * np.arange(1, T - 1) * mm / N)[:, None], axis=0)
            acc = acc + P[T - 1] * np.cos(np.pi * mm)
            inv[mm] = acc / N
        out += (inv / np.arange(T, 0, -1)[:, None]).T
    return out / out[:, :1]


def run_unit(unit, rng, ctx):
    from gemdat.orientations import Orientations
    from pymatgen.symmetry.groups import PointGroup

    bond = float(rng.uniform(0.9, 1.6))
    large = unit['i'] in (11, 137) or (ctx.tier == 'thorough' and unit['i'] % 300 == 11)
    for _ in range(30):
        kind, rot, m = geom.random_lattice(rng, lo=24.0 if large else 6.0, hi=30.0 if large else 12.0)
        if geom.perp_widths(m).min() >= 5.2 * bond:
            break
    else:
        raise Skip('cell too small for the bond')
    inv = np.linalg.inv(m)
    n_cl = int(rng.integers(66, 82)) if large else int(rng.integers(1, 5))
    if large:
        ctx.count('systems_with_more_than_256_satellites')
    centres0 = geom.separated_points(rng, m, n_cl, 2 * bond * 1.12 + 1.6 * bond, face_prob=0.4)
    if centres0 is None:
        raise Skip('clusters do not fit')
    big = ctx.tier == 'thorough' and unit['i'] % 40 == 0
    T = int(rng.integers(150, 400)) if big else int(rng.integers(2, 121))
    if large:
        T = int(rng.integers(2, 5))
    c_name, s_name = [('S', 'O'), ('P', 'S'), ('Si', 'O'), ('B', 'H')][int(rng.integers(4))]
    walk = np.cumsum(rng.normal(scale=0.03, size=(T, 1, 3)) * (np.arange(T) > 0)[:, None, None], axis=0)
    cent = centres0[None, :, :] + walk  # all clusters drift together: their separation is preserved
    lens = bond * rng.uniform(0.95, 1.05, size=(n_cl, 4))
    mixed_bonds = (not large) and unit['i'] % 4 == 1 and n_cl >= 2
    if mixed_bonds:
        # clusters of different size in one cell (bond lengths up to 1.3 x the shortest, all below 1.5 x the shortest
        # distance, which is the library's bonding criterion)
        fk = rng.uniform(1.0, 1.3, size=n_cl)
        fk[int(rng.integers(n_cl))] = 1.0
        fk[int(rng.choice([k_ for k_ in range(n_cl) if fk[k_] != 1.0] or [0]))] = 1.3
        lens = bond * fk[:, None] * rng.uniform(0.98, 1.02, size=(n_cl, 4))
        ctx.count('systems_with_clusters_of_different_bond_length')
    # bond lengths may vibrate in time (+-12 %): un-normalised vectors then carry a length weighting
    breathing = bool(rng.integers(2))
    breath = 1.0 + (0.12 * np.sin(rng.uniform(0, 6.28, size=(1, n_cl, 4)) + np.arange(T)[:, None, None] * rng.uniform(0.2, 1.5, size=(1, n_cl, 4))) if breathing else np.zeros((T, n_cl, 4)))
    breath[0] = 1.0
    mode = str(rng.choice(['random', 'smooth', 'static']))
    sat = np.empty((T, n_cl, 4, 3))
    truth = np.empty((T, n_cl, 4, 3))
    for c in range(n_cl):
        R = geom.random_rotation(rng)
        for t in range(T):
            if mode == 'random':
                R = geom.random_rotation(rng)
            elif mode == 'smooth' and t:
                ax = rng.normal(size=3)
                ax /= np.linalg.norm(ax)
                th = rng.normal(scale=0.15)
                K = np.array([[0, -ax[2], ax[1]], [ax[2], 0, -ax[0]], [-ax[1], ax[0], 0]])
                R = R @ (np.eye(3) + np.sin(th) * K + (1 - np.cos(th)) * K @ K)
            vec = (TETRA * (lens[c] * breath[t, c])[:, None]) @ R.T
            truth[t, c] = vec
            sat[t, c] = cent[t, c][None, :] + vec @ inv
    n_spec = int(rng.integers(0, 3))
    spec = np.mod(rng.uniform(0, 1, size=(1, n_spec, 3)) + rng.normal(scale=0.01, size=(T, n_spec, 3)), 1)
    # atom table: (name, kind, cluster, satellite index) in shuffled order
    # unbonded atoms of the SATELLITE species (e.g. free S next to PS4 units): at least 2.2 bond lengths from every
    # centre at all times (they drift with the clusters), listed anywhere in the atom table
    free = []
    if not large:
        for _ in range(int(rng.integers(0, 4))):
            for _try in range(60):
                p0 = rng.uniform(0, 1, size=3)
                if geom.min_image(m, p0[None, :], centres0)[0].min() >= 2.2 * bond * 1.06 and (not free or geom.min_image(m, p0[None, :], np.array(free))[0].min() >= 0.8):
                    free.append(p0)
                    break
    if mixed_bonds:
        # an unbonded atom of the satellite species just outside the bonding criterion (1.5 x the shortest distance in
        # the cell) of a long-bond centre, yet closer to it than 1.5 x that centre's own shortest bond
        gmin = float(lens.min())
        for k_ in range(n_cl):
            lo_, hi_ = 1.5 * gmin * 1.04, 1.5 * float(lens[k_].min()) * 0.96
            if hi_ - lo_ < 0.02:
                continue
            for _try in range(80):
                d_ = float(rng.uniform(lo_, hi_))
                p0 = centres0[k_] + (gen.random_unit_vectors(rng, 1)[0] * d_) @ inv
                dc_ = geom.min_image(m, p0[None, :], centres0)[0]
                others_ok = all(dc_[j_] >= 1.5 * float(lens[j_].min()) * 1.04 for j_ in range(n_cl) if j_ != k_)
                sat_ok = geom.min_image(m, p0[None, :], sat[0].reshape(-1, 3))[0].min() >= 0.7
                if others_ok and sat_ok and (not free or geom.min_image(m, p0[None, :], np.array(free))[0].min() >= 0.8):
                    free.append(np.mod(p0, 1))
                    ctx.count('unbonded_satellite_atoms_between_the_global_and_the_local_bonding_radius')
                    break
    free_tr = (np.array(free)[None, :, :] + walk) if free else np.empty((T, 0, 3))
    ctx.count('unbonded_atoms_of_the_satellite_species', len(free))
    atoms = [(c_name, 'c', c, -1) for c in range(n_cl)] + [(s_name, 's', c, j) for c in range(n_cl) for j in range(4)] + [('Li', 'x', i, -1) for i in range(n_spec)] + [(s_name, 'f', i, -1) for i in range(len(free))]
    order = rng.permutation(len(atoms))
    atoms = [atoms[i] for i in order]
    coords = np.empty((T, len(atoms), 3))
    for idx, (nm, kd, c, j) in enumerate(atoms):
        coords[:, idx] = cent[:, c] if kd == 'c' else (sat[:, c, j] if kd == 's' else (free_tr[:, c] if kd == 'f' else spec[:, c]))
    coords = np.mod(coords, 1)
    if unit['i'] % 3 == 0:
        # every atom stored in its own periodic image (bonded atoms up to several cells apart in the input)
        coords = coords + rng.integers(-3, 4, size=(1, coords.shape[1], 3)) + (rng.integers(-1, 2, size=coords.shape) if rng.integers(2) else 0)
        ctx.count('inputs_with_atoms_in_arbitrary_periodic_images')
    traj = gen.make_trajectory(m, gen.species_objects([a[0] for a in atoms], rng=rng), coords, time_step=1e-15)
    what = f'{kind}{"/rot" if rot else ""} clusters={n_cl} T={T} bond={bond:.3f} rotation={mode}'
    wit = {'matrix': m, 'atoms': atoms, 'bond': bond}
    # expected bond order: centres in trajectory order, for each its satellites in trajectory order
    cent_order = [a[2] for a in atoms if a[1] == 'c']
    sat_order = [(a[2], a[3]) for a in atoms if a[1] == 's']
    want = np.stack([truth[:, c, j] for c in cent_order for (cc, j) in sat_order if cc == c], axis=1)
    with warnings.catch_warnings():
        warnings.simplefilter('ignore')
        ori = Orientations(traj, center_type=c_name, satellite_type=s_name)
    got = np.asarray(ori.vectors)
    ok = ctx.check(got.shape == want.shape, f'{what}: vectors has shape {got.shape}, expected {want.shape}', wit)
    if not ok:
        ctx.case(None, False)
        return
    dev = np.abs(got - want)
    t_, b_, _ = np.unravel_index(np.argmax(dev), dev.shape)
    ok = ctx.check(float(dev.max()) <= 1e-8, f'{what}: vector of bond {b_} at frame {t_} is {got[t_, b_].tolist()}, the minimum-image centre->satellite bond is {want[t_, b_].tolist()}', wit)
    ln = np.linalg.norm(got, axis=2)
    ctx.check(np.allclose(ln, np.linalg.norm(want, axis=2), rtol=0, atol=1e-8), f'{what}: vector lengths are not the periodic centre-satellite distances', wit)
    # a SECOND system in the same process with the same species sequence (same atom table) but other bonding: the
    # satellites listed for cluster c now sit around cluster c+1
    if 2 <= n_cl <= 8 and unit['i'] % 2 == 0:
        coords2 = np.empty_like(coords)
        for idx, (nm, kd, c, j) in enumerate(atoms):
            coords2[:, idx] = cent[:, c] if kd == 'c' else (sat[:, (c + 1) % n_cl, j] if kd == 's' else (free_tr[:, c] if kd == 'f' else spec[:, c]))
        traj2 = gen.make_trajectory(m, list(traj.species), np.mod(coords2, 1), time_step=1e-15)
        want2 = np.stack([truth[:, c, j] for c in cent_order for (cc, j) in sat_order if (cc + 1) % n_cl == c], axis=1)
        with warnings.catch_warnings():
            warnings.simplefilter('ignore')
            got2 = np.asarray(Orientations(traj2, center_type=c_name, satellite_type=s_name).vectors)
        if ctx.check(got2.shape == want2.shape, f'{what} [second system, same species sequence, other bonding]: vectors has shape {got2.shape}, expected {want2.shape}', wit):
            d2 = np.abs(got2 - want2)
            t2_, b2_, _ = np.unravel_index(np.argmax(d2), d2.shape)
            ctx.check(float(d2.max()) <= 1e-8, f'{what} [second system, same species sequence, other bonding]: vector of bond {b2_} at frame {t2_} is {got2[t2_, b2_].tolist()}, the centre->satellite bond is {want2[t2_, b2_].tolist()}', wit)
        ctx.count('second_systems_with_the_same_species_sequence')
    # how many bonds cross a face (satellite and centre in different cells)?
    crossing = 0
    for c in range(n_cl):
        fc = np.floor(cent[:, c])
        for j in range(4):
            crossing += int(np.sum(np.any(np.floor(sat[:, c, j]) != fc, axis=1)))
    base = got
    # normalize
    nv = np.asarray(ori.normalize().vectors)
    ctx.check(np.allclose(np.linalg.norm(nv, axis=2), 1, atol=1e-12) and np.allclose(nv * ln[..., None], base, atol=1e-9), f'{what}: normalize() does not give unit vectors with unchanged directions', wit)
    ctx.check(np.array_equal(np.asarray(ori.vectors), base), f'{what}: normalize() modified the original object', wit)
    # symmetrize (group name)
    for g in [GROUPS[int(i)] for i in rng.choice(len(GROUPS), size=3, replace=False)]:
        Rm = np.array([o.rotation_matrix for o in PointGroup(g).symmetry_ops])
        if not np.allclose(np.einsum('kij,klj->kil', Rm, Rm), np.eye(3), atol=1e-9):
            ctx.count('non_orthogonal_group_skipped')
            continue
        sv = np.asarray(ori.symmetrize(sym_group=g).vectors)
        n_ops = len(Rm)
        good = sv.shape == (T, base.shape[1] * n_ops, 3)
        if good:
            blocks = sv.reshape(T, base.shape[1], n_ops, 3)
            orbit = np.einsum('kij,tbj->tbki', Rm, base)
            # compare as multisets per (frame, bond): sort both lexicographically
            def canon(a):
                r = np.round(a, 7) + 0.0
                idx = np.lexsort((r[..., 2], r[..., 1], r[..., 0]), axis=-1)
                return np.take_along_axis(a, idx[..., None], axis=2)

            d_ = np.abs(canon(blocks) - canon(orbit)).max()
            if d_ > 1e-6:
                # robust fallback: every image has a partner
                from scipy.spatial import cKDTree

                worst = 0.0
                for tt in range(0, T, max(1, T // 5)):
                    for bb in range(base.shape[1]):
                        dd, ii = cKDTree(orbit[tt, bb]).query(blocks[tt, bb])
                        worst = max(worst, float(dd.max()))
                        if len(set(ii.tolist())) != len({tuple(np.round(x, 6)) for x in orbit[tt, bb]}):
                            worst = max(worst, 1.0)
                d_ = worst
            good = d_ <= 1e-6
        ctx.check(bool(good), f'{what}: symmetrize({g!r}) does not give, for every vector, exactly its {n_ops} images under the group (shape {sv.shape})', wit)
        ctx.count('symmetrize_groups_checked')
    # symmetrize (explicit operations)
    g = GROUPS[int(rng.integers(len(GROUPS)))]
    Rm = np.array([o.rotation_matrix for o in PointGroup(g).symmetry_ops])
    sub = Rm[rng.permutation(len(Rm))[: int(rng.integers(1, len(Rm) + 1))]]
    arg = sub.transpose(1, 2, 0) if len(sub) > 1 or rng.integers(2) else sub[0]
    both_args = len(sub) > 1 and unit['i'] % 3 == 0
    if both_args:
        # both arguments given: the explicit operations are documented to override the named group
        g_other = GROUPS[int(rng.integers(len(GROUPS)))]
        sv = np.asarray(ori.symmetrize(sym_group=g_other, sym_ops=arg).vectors)
        ctx.count('symmetrize_called_with_group_and_explicit_operations')
    else:
        sv = np.asarray(ori.symmetrize(sym_ops=arg).vectors)
    if sv.shape == (T, base.shape[1] * len(sub), 3):
        blocks = sv.reshape(T, base.shape[1], len(sub), 3)
        a1 = np.einsum('kij,tbj->tbki', sub, base)
        a2 = np.einsum('kji,tbj->tbki', sub, base)
        ctx.check(bool(np.allclose(blocks, a1, atol=1e-9) or np.allclose(blocks, a2, atol=1e-9)), f'{what}: symmetrize(sym_ops=...) does not apply the {len(sub)} supplied operations to every vector', wit)
    elif np.ndim(arg) == 2 and sv.shape == (T, base.shape[1] * 3, 3) and np.allclose(sv.reshape(T, base.shape[1], 3, 3), base.sum(axis=2)[..., None, None] * np.asarray(arg).T[None, None, :, :], atol=1e-9):
        ctx.decided()
        ctx.known_finding(K8, f'{what}: symmetrize(sym_ops=<one 3x3 matrix>) returned {sv.shape[1] // base.shape[1]} "images" per vector, each (sum of the vector components) x a column of the matrix')
    else:
        ctx.check(False, f'{what}: symmetrize(sym_ops with {len(sub)} operations, argument shape {np.shape(arg)}) gave shape {sv.shape}', wit)
    # transform
    A = rng.normal(size=(3, 3))
    tv = np.asarray(ori.transform(A).vectors)
    ctx.check(np.allclose(tv, np.einsum('ij,tbj->tbi', A, base), atol=1e-9), f'{what}: transform(A) is not A applied to every vector', wit)
    # matrices close to, but not equal to, special ones (a small strain, a tiny rotation, nearly singular, huge)
    kindA = str(rng.choice(['near_identity', 'tiny_rotation', 'nearly_singular', 'large', 'identity']))
    if kindA == 'near_identity':
        A2 = np.eye(3) + rng.uniform(-1, 1, size=(3, 3)) * 10.0 ** float(rng.uniform(-9, -4))
    elif kindA == 'tiny_rotation':
        th_ = 10.0 ** float(rng.uniform(-8, -4))
        A2 = np.array([[np.cos(th_), -np.sin(th_), 0], [np.sin(th_), np.cos(th_), 0], [0, 0, 1]])
    elif kindA == 'nearly_singular':
        A2 = rng.normal(size=(3, 3))
        A2[2] = A2[0] + 1e-9 * rng.normal(size=3)
    elif kindA == 'large':
        A2 = rng.normal(size=(3, 3)) * 1e6
    else:
        A2 = np.eye(3)
    tv2 = np.asarray(ori.transform(A2).vectors)
    want2_ = np.einsum('ij,tbj->tbi', A2, base)
    ctx.check(tv2.shape == want2_.shape and float(np.abs(tv2 - want2_).max()) <= 1e-12 * max(1.0, float(np.abs(want2_).max())), f'{what}: transform with a {kindA} matrix is not that matrix applied to every vector (max deviation {float(np.abs(tv2 - want2_).max()):.3e})', {**wit, 'matrix_A': A2})
    ctx.count(f'transform_matrix:{kindA}')
    # spherical representation is invertible
    sph = np.asarray(ori.vectors_spherical)
    az, el, r = np.radians(sph[..., 0]), np.radians(sph[..., 1]), sph[..., 2]
    back = np.stack([r * np.cos(el) * np.cos(az), r * np.cos(el) * np.sin(az), r * np.sin(el)], axis=-1)
    ctx.check(sph.shape == base.shape and np.allclose(back, base, atol=1e-8), f'{what}: spherical representation (azimuth, elevation, length) does not convert back to the vectors', wit)
    # autocorrelation
    for label, obj in (('raw', ori), ('normalized', ori.normalize())):
        ac = np.asarray(obj.autocorrelation())
        v = np.asarray(obj.vectors)
        truth_ac = true_autocorr(v)
        ctx.decided()
        if ac.shape != truth_ac.shape:
            ctx.violation(f'{what}: autocorrelation ({label}) has shape {ac.shape}, expected {truth_ac.shape}', wit)
            continue
        if np.allclose(ac, truth_ac, atol=1e-9):
            ctx.count('autocorrelation_exact')
            continue
        model = alias_model(v)
        if np.allclose(ac, model, atol=1e-8) and np.allclose(ac[:, 0], 1):
            b = int(np.argmax(np.abs(ac - truth_ac).max(axis=1)))
            lag = int(np.argmax(np.abs(ac[b] - truth_ac[b])))
            ctx.known_finding(K5, f'{what}: autocorrelation ({label}) bond {b} lag {lag} = {ac[b, lag]:.6f}, definition gives {truth_ac[b, lag]:.6f}; output matches the length-(2T-2) aliasing model to {np.abs(ac - model).max():.1e}')
        else:
            b = int(np.argmax(np.abs(ac - truth_ac).max(axis=1)))
            lag = int(np.argmax(np.abs(ac[b] - truth_ac[b])))
            ctx.violation(f'{what}: autocorrelation ({label}) bond {b} lag {lag} = {ac[b, lag]!r}; time-origin average gives {truth_ac[b, lag]!r}; aliasing model of K5 gives {model[b, lag]!r} (not explained by K5)', wit)
    ctx.count('bond_frames_checked', int(got.shape[0] * got.shape[1]))
    ctx.count('bond_frames_crossing_a_face', crossing)
    ctx.count(f'lattice:{kind}')
    ctx.count(f'rotation_mode:{mode}')
    ctx.count('cases_with_vibrating_bond_lengths', breathing)
    ctx.case(signature(m, coords), crossing > 0 and n_cl >= 2, sample={'lattice': kind, 'rotated': rot, 'clusters': n_cl, 'T': T, 'bond': bond, 'centre': c_name, 'satellite': s_name, 'rotation': mode, 'bond_frames_crossing_a_face': crossing, 'atom_order': [a[0] for a in atoms]})
