"""C06 — mean squared displacement and tracer diffusivity equal their definitions."""
from __future__ import annotations

import numpy as np

from .. import gen, geom, models
from ..core import signature
from ..monitor import Monitor

ID = 'C06'
LEVEL = 'exploration'
RULE = (
    'cases: random walks of 1-6 atoms (each with its own step scale, so mean-of-squares != square-of-mean) over '
    '2-150 frames (thorough: up to 2000; two cases per quick run with 10 500 - 14 000 frames and a steady drift) in a random cell of the lattice zoo (non-orthogonal cells = 5 of 8 classes, '
    'half of all cells rotated), given wrapped so that atoms cross faces many times.  Oracle: O(T^2) time-origin '
    'average on the harness ground truth (unwrapped Cartesian walk).  Non-trivial = at least two atoms with different '
    'final displacement or a non-orthogonal cell, and at least one face crossing; distinct = SHA-1 of the walk.'
)
RULE += ' Added in rounds 6-9: result retention; re-query after extend(); a second run of the same shape analysed while the first result is held; atomic-unit and arbitrary time steps.'
RULE += ' Round 15: a tenth of the walks also as variable-cell runs: a loud refusal is accepted, an answer built from a single frame\'s cell is not.'
RULE += ' Round 14: an atom on dyadic coordinates that moves and returns exactly to its first position (final accumulated displacement 0.0).'
RULE += ' Round 12: one run (four in the thorough tier) of 1.45-1.9 million atom-frames with 3, 5 or 7 atoms, compared with the direct time-origin average at ~50 sampled lags.'
ASSUMPTIONS = [
    'total time is n_frames x time_step (the library\'s documented total_time)',
    'FFT round-off: comparison at rtol 1e-9 of the largest MSD value of the case',
]
N_CASES = {'quick': 400, 'thorough': 30000}
BUDGET_S = {'quick': 200, 'thorough': 3600}
ANGSTROM = 1e-10

_mon = Monitor()


def units(tier):
    return [{'k': 'rand', 'i': i} for i in range(N_CASES[tier])] + [{'k': 'long', 'i': i} for i in range(1 if tier == 'quick' else 4)]


def setup(ctx):
    from gemdat import Trajectory
    from gemdat.metrics import TrajectoryMetrics

    from .. import retain as _rt

    _mon.attach(Trajectory, 'mean_squared_displacement', label='Trajectory.mean_squared_displacement', retain=_rt.auto, scribble=True)
    _mon.attach(Trajectory, 'distances_from_base_position', label='Trajectory.distances_from_base_position', retain=_rt.auto, scribble=True)
    _mon.attach(TrajectoryMetrics, 'tracer_diffusivity', label='TrajectoryMetrics.tracer_diffusivity')


def teardown(ctx):
    _mon.flush_counts(ctx)
    _mon.detach_all()


LONG_DEV = [0.0]


def run_long(unit, rng, ctx):
    """Production-size input: 1.45-1.9 million atom-frames (3, 5 or 7 atoms), MSD compared at sampled lags."""
    kind, rot, m = geom.random_lattice(rng)
    N = int(rng.choice([3, 5, 7]))
    T = int(rng.integers(1_450_000, 1_900_000)) // N + 1
    U = gen.random_walk(rng, T, N, max_step=0.05)
    traj = gen.make_trajectory(m, gen.species_objects(['Li'] * N), U - np.floor(U), time_step=2e-15, presentation='plain')
    got = np.asarray(traj.mean_squared_displacement())
    what = f'{kind}{"/rot" if rot else ""} long run T={T} N={N}'
    ctx.check(got.shape == (N, T), f'{what}: MSD shape {got.shape} != (atoms, lags) {(N, T)}')
    if got.shape != (N, T):
        ctx.case(None, False)
        return
    cart = (U - U[:1]) @ m
    lags = sorted({0, 1, 2, 3, T // 2, T - 2, T - 1, *[int(x) for x in rng.integers(1, T, size=30)], *[int(x) for x in 10 ** rng.uniform(0.5, np.log10(T - 1), size=12)]})
    want = np.zeros((N, len(lags)))
    for k_, tau in enumerate(lags):
        diff = cart[tau:] - cart[: T - tau]
        want[:, k_] = np.mean(np.einsum('tad,tad->ta', diff, diff), axis=0)
    dev = np.abs(got[:, lags] - want)
    # tolerance: the documented algorithm (FFT autocorrelation + running sums of |r|^2) works on sums of the size
    # sum_t |r(t)|^2 and divides by the number of time origins; its rounding noise is ~eps sqrt(T) sum|r|^2 / (T - tau)
    # (measured 0.5 x that on the unchanged code); 32 x that, plus 1e-9 of the largest squared excursion, is allowed
    r2 = np.einsum('tad,tad->ta', cart, cart)
    scale = max(float(r2.max()), 1e-12)
    tol = 1e-9 * scale + 32 * np.finfo(float).eps * np.sqrt(T) * r2.sum(axis=0)[:, None] / (T - np.array(lags))[None, :]
    i, k_ = np.unravel_index(np.argmax(dev / tol), dev.shape)
    LONG_DEV[0] = max(LONG_DEV[0], float((dev / tol).max()))
    ctx.check(bool(np.all(np.isfinite(got))) and bool(np.all(dev <= tol)), f'{what}: msd[atom {i}, lag {lags[k_]}]={got[i, lags[k_]]!r} but the time-origin average of |r(t+tau)-r(t)|^2 is {want[i, k_]!r} (checked at {len(lags)} lags)', {'matrix': m})
    ctx.count('runs_with_more_than_1.4e6_atom_frames')
    ctx.count('lags_checked_on_long_runs', len(lags))
    ctx.case(f'long{unit["i"]}', True, sample={'kind': 'long', 'frames': T, 'atoms': N, 'lags_checked': len(lags)})


def run_unit(unit, rng, ctx):
    if unit.get('k') == 'long':
        return run_long(unit, rng, ctx)
    kind, rot, m = geom.random_lattice(rng)
    big = ctx.tier == 'thorough' and unit['i'] % 50 == 0
    T = int(rng.integers(500, 2001)) if big else int(rng.integers(2, 151))
    N = int(rng.integers(1, 7))
    huge = unit['i'] in (7, 208) or (ctx.tier == 'thorough' and unit['i'] % 400 == 7)
    if huge:
        # more than 10 000 frames, large excursions (accumulated precision of the FFT-based MSD)
        T = int(rng.integers(10500, 14000))
        N = int(rng.integers(1, 3))
        ctx.count('very_long_trajectories')
    drift = rng.normal(scale=0.02, size=(1, 1, 3)) if rng.integers(2) else None
    if huge:
        drift = rng.normal(scale=0.05, size=(1, 1, 3))
    U = gen.random_walk(rng, T, N, max_step=float(rng.choice([0.05, 0.2, 0.4])), drift=drift, p_still=0.1)
    if np.abs(np.diff(U, axis=0)).max() >= 0.49:
        U = U[0:1] + (U - U[0:1]) * (0.45 / np.abs(np.diff(U, axis=0)).max())
    if unit['i'] % 6 == 4 and T >= 4 and not huge:
        # an atom that hops away and returns EXACTLY to where it started (dyadic coordinates: the accumulated
        # displacement of the last frame is 0.0 bit for bit), next to atoms that end elsewhere
        a_loop = int(rng.integers(N))
        st_l = rng.choice([-0.25, -0.125, 0.0, 0.125, 0.25], size=(T, 3))
        st_l[0] = 0
        st_l[-1] = -st_l[:-1].sum(axis=0)
        while np.abs(st_l[-1]).max() >= 0.5:
            st_l[1 : T - 1] *= 0.5
            st_l[-1] = -st_l[:-1].sum(axis=0)
        U[:, a_loop] = np.array([0.25, 0.5, 0.375]) + np.cumsum(st_l, axis=0)
        ctx.count('atoms_returning_exactly_to_their_first_position')
    # time steps: round femtosecond values, atomic-unit steps, arbitrary values over two decades
    dt = float(rng.choice([1e-15, 2e-15, 5e-16, 20 * 2.4188843265857e-17, 1.2345678e-15, float(10.0 ** rng.uniform(-16.5, -14))]))
    names = [str(x) for x in rng.choice(['Li', 'Na', 'S'], size=N)]
    input_mode = str(rng.choice(['wrapped', 'unwrapped', 'random_images']))
    if input_mode == 'wrapped':
        X = U - np.floor(U)
    elif input_mode == 'unwrapped':
        X = U
    else:
        # every coordinate of every frame in an arbitrary periodic image (e.g. folded restarts)
        X = U + rng.integers(-3, 4, size=U.shape)
    ctx.count(f'input:{input_mode}')
    traj = gen.make_trajectory(m, gen.species_objects(names, rng=rng), X, time_step=dt)
    what = f'{kind}{"/rot" if rot else ""} T={T} N={N}'
    cart = (U - U[:1]) @ m
    want = models.msd_model(cart)
    # history: other queries made first on the same object must not influence the results
    pre = [str(x) for x in rng.permutation(['com', 'haven', 'positions', 'displacements', 'cumulative', 'drift', 'none', 'none'])[: int(rng.integers(0, 4))]]
    for q in pre:
        if q == 'com':
            _ = traj.center_of_mass()
        elif q == 'haven' and N > 1:
            try:
                _ = traj.metrics().haven_ratio(dimensions=3)
            except ZeroDivisionError:
                ctx.count('haven_ratio_of_a_static_centre_of_mass_raised')  # D_com = 0: no ratio exists
        elif q == 'positions':
            _ = traj.positions
        elif q == 'displacements':
            _ = traj.displacements
        elif q == 'cumulative':
            _ = traj.cumulative_displacements
        elif q == 'drift':
            _ = traj.drift()
    what += f' after {pre}' if pre else ''
    ctx.count('cases_with_prior_queries', bool(pre))
    if unit['i'] % 10 == 7 and not huge:
        # a variable-cell (NPT) run: one lattice per frame, breathing by +-10 %.  The library may refuse it loudly; if it
        # answers, the answer is built from unwrapped Cartesian positions of the cells the run actually had (positions in
        # the cell of their frame, or displacement steps converted in the cell of their frame) - not of one frame's cell
        from gemdat import Trajectory as _Tr

        lat_t = np.stack([m * (1 + 0.1 * np.sin(0.37 * t_ + 0.5)) for t_ in range(T)])
        tv = _Tr(species=gen.species_objects(names), coords=(U - np.floor(U)).copy(), lattice=lat_t, constant_lattice=False, time_step=dt, metadata={'temperature': 300.0})
        try:
            got_v = np.asarray(tv.distances_from_base_position())
            answered = True
        except Exception:  # noqa: BLE001
            answered = False
            ctx.count('variable_cell_runs_refused_loudly')
        if answered:
            cumf = U - U[:1]
            def_a = np.linalg.norm(np.einsum('tad,tde->tae', cumf, lat_t), axis=2).T
            stp = np.diff(U, axis=0, prepend=U[:1])
            def_b = np.linalg.norm(np.cumsum(np.einsum('tad,tde->tae', stp, lat_t), axis=0), axis=2).T
            sc_v = max(float(def_a.max()), 1e-12)
            okv = got_v.shape == def_a.shape and (float(np.abs(got_v - def_a).max()) <= 1e-6 * sc_v or float(np.abs(got_v - def_b).max()) <= 1e-6 * sc_v)
            ctx.check(okv, f'{what} [variable cell, +-10 %]: distances_from_base_position answered, but not with the Cartesian lengths of the unwrapped displacements in the cells of the run (max dev {float(np.abs(got_v - def_a).max()) if got_v.shape == def_a.shape else got_v.shape} A of {sc_v:.3f})', {'matrix': m})
            ctx.count('variable_cell_runs_answered')
    got = np.asarray(traj.mean_squared_displacement())
    scale = max(float(want.max()), 1e-12)
    ok_shape = got.shape == want.shape
    ctx.check(ok_shape, f'{what}: MSD shape {got.shape} != (atoms, lags) {want.shape}')
    if ok_shape:
        dev = np.abs(got - want)
        i, tau = np.unravel_index(np.argmax(dev), dev.shape)
        ctx.check(float(dev.max()) <= 1e-9 * scale, f'{what}: msd[atom {i}, lag {tau}]={got[i, tau]!r} but the time-origin average of |r(t+tau)-r(t)|^2 is {want[i, tau]!r}', {'matrix': m, 'U_atom': U[:, i]})
        ctx.check(float(np.abs(got[:, 0]).max()) <= 1e-9 * scale, f'{what}: msd at lag 0 is {got[:, 0]}, not 0')
    if unit['i'] % 2 == 0 and not huge and ok_shape:
        # a second run of the same shape (atoms x frames) is analysed while the first result is still in use: the
        # first result is not altered, the second is that of its own motion
        kept = traj.mean_squared_displacement()
        U_b = gen.random_walk(rng, T, N, max_step=0.3)
        twin = gen.make_trajectory(m, list(traj.species), U_b - np.floor(U_b), time_step=dt)
        got_b = np.asarray(twin.mean_squared_displacement())
        want_b = models.msd_model((U_b - U_b[:1]) @ m)
        ctx.check(got_b.shape == want_b.shape and float(np.abs(got_b - want_b).max()) <= 1e-9 * max(float(want_b.max()), 1e-12), f'{what}: MSD of a second run of the same shape is not its own time-origin average', {'matrix': m})
        ctx.check(float(np.abs(np.asarray(kept) - want).max()) <= 1e-9 * scale, f'{what}: the MSD array returned for the first run changed when a second run of the same shape ({N} atoms x {T} frames) was analysed', {'matrix': m})
        ctx.count('second_runs_of_the_same_shape')
    dist = np.asarray(traj.distances_from_base_position())
    wd = np.linalg.norm(cart, axis=2).T
    ctx.check(dist.shape == wd.shape and float(np.abs(dist - wd).max()) <= 1e-9 * max(1.0, wd.max()), f'{what}: distance from the starting position differs from the Cartesian length of the unwrapped displacement', {'matrix': m})
    final_sq = np.sum(cart[-1] ** 2, axis=1)
    for dim in (1, 2, 3):
        g = float(traj.metrics().tracer_diffusivity(dimensions=dim))
        w = float(np.mean(final_sq)) * ANGSTROM**2 / (2 * dim * T * dt)
        ctx.check(abs(g - w) <= 1e-9 * abs(w) + 1e-32 / (2 * dim * T * dt), f'{what}: tracer_diffusivity(dimensions={dim})={g!r}, definition gives {w!r}', {'matrix': m, 'final_sq': final_sq, 'T': T, 'dt': dt})
    # ... and asking again after everything else gives the same answers
    _ = traj.center_of_mass()
    dist2 = np.asarray(traj.distances_from_base_position())
    ctx.check(dist2.shape == wd.shape and float(np.abs(dist2 - wd).max()) <= 1e-9 * max(1.0, wd.max()), f'{what}: distances_from_base_position() changed after center_of_mass() / other queries on the same object', {'matrix': m})
    got2 = np.asarray(traj.mean_squared_displacement())
    ctx.check(got2.shape == want.shape and float(np.abs(got2 - want).max()) <= 1e-9 * scale, f'{what}: mean_squared_displacement() changed when asked a second time', {'matrix': m})
    g2 = float(traj.metrics().tracer_diffusivity(dimensions=3))
    w2 = float(np.mean(final_sq)) * ANGSTROM**2 / (2 * 3 * T * dt)
    ctx.check(abs(g2 - w2) <= 1e-9 * abs(w2) + 1e-32 / (6 * T * dt), f'{what}: tracer_diffusivity changed when asked again through a new metrics object: {g2!r} vs {w2!r}', {'matrix': m})
    # the same object grows in place (a second run appended with extend): MSD, distances and diffusivity are
    # those of the frames it holds now
    if unit['i'] % 3 == 0 and not huge:
        T2 = int(rng.integers(2, 30))
        Ue = np.concatenate([U, U[-1:] + np.cumsum(rng.uniform(-0.2, 0.2, size=(T2, N, 3)), axis=0)])
        traj.extend(gen.make_trajectory(m, list(traj.species), (Ue - np.floor(Ue))[T:], time_step=dt))
        carte = (Ue - Ue[:1]) @ m
        wante = models.msd_model(carte)
        gote = np.asarray(traj.mean_squared_displacement())
        sce = max(float(wante.max()), 1e-12)
        if ctx.check(gote.shape == wante.shape, f'{what}: after extend() by {T2} frames the MSD has shape {gote.shape}, expected {wante.shape}'):
            ctx.check(float(np.abs(gote - wante).max()) <= 1e-9 * sce, f'{what}: after extend() by {T2} frames the MSD is not the time-origin average over the frames the object holds now (max dev {np.abs(gote - wante).max():.3e})', {'matrix': m})
        ge = float(traj.metrics().tracer_diffusivity(dimensions=3))
        we = float(np.mean(np.sum(carte[-1] ** 2, axis=1))) * ANGSTROM**2 / (6 * (T + T2) * dt)
        ctx.check(abs(ge - we) <= 1e-9 * abs(we) + 1e-32 / (6 * (T + T2) * dt), f'{what}: after extend() by {T2} frames tracer_diffusivity is {ge!r}, the definition on the current frames gives {we!r}', {'matrix': m})
        ctx.count('requery_after_extend')
    crossings = int(np.sum(np.floor(U[1:]) != np.floor(U[:-1])))
    nonortho = kind in ('hexagonal', 'rhombohedral', 'monoclinic', 'triclinic_mild', 'triclinic_strong')
    differ = N > 1 and float(np.ptp(final_sq)) > 1e-6
    ctx.count('face_crossings', crossings)
    ctx.count(f'lattice:{kind}')
    ctx.count('non_orthogonal_cells', nonortho)
    ctx.count('lags_compared', T * N)
    ctx.case(signature(U, m), (differ or nonortho) and crossings > 0, sample={'lattice': kind, 'rotated': rot, 'T': T, 'N': N, 'dt': dt, 'face_crossings': crossings, 'msd_lag1': want[:, 1] if T > 1 else None})
