"""C13 — drift correction removes exactly the reference-frame motion."""
from __future__ import annotations

import warnings

import numpy as np

from .. import gen, geom
from ..core import signature
from ..monitor import Monitor

ID = 'C13'
LEVEL = 'exploration'
RULE = (
    'cases: random walks of 2-4 species (symbols drawn from Li, Na, S, Si, P, O so that S/Si substring clashes '
    'occur; Species and Element objects mixed) in lattice-zoo cells; reference set chosen as fixed_species or '
    'floating_species, given as str / list / tuple / set, or none; every case is also run with an injected rigid '
    'time-dependent translation of all atoms.  Oracle: ground-truth model (mean step of the reference atoms '
    'subtracted from every step, first frame kept).  Non-trivial = at least two species, reference set a strict '
    'subset of the atoms; distinct = SHA-1 of (walk, species, argument form).'
)
RULE += ' Added in rounds 6-10: a further drift() query for another reference set on the same trajectory; nearly static crystals with a common drift of 1e-10..1e-8 per frame; collections with repeated names; a non-reference atom with NaN coordinates. Round 12: "none" also spelled as None / empty tuple / empty list / empty string arguments (reference = every atom, or a loud refusal). Round 16: selections as a list of ~100 element names (all but the others present) and as dict keys. Round 14: hydrogen atoms given as H / D / T isotopes (symbol H). Round 13: a hop of ~0.4 cell against a reference step of -0.15 (relative step beyond half a cell), examined on the returned object before any representation switch.'
ASSUMPTIONS = [
    'steps (including the injected drift) stay below 0.45 cell so that minimum-image steps are the true steps',
    'tolerances: residual drift 1e-12, positions 1e-9 (circular)',
    'collections of names are lists / tuples / sets (also with repeated names); a numpy array of names is rejected by drift() with a loud ValueError (truth value of an array), which is outside "string or collection" as the library annotates it and not a silent wrong result',
]
N_CASES = {'quick': 400, 'thorough': 100000}
BUDGET_S = {'quick': 200, 'thorough': 3600}
SYMBOLS = ['Li', 'Na', 'S', 'Si', 'P', 'O']

_mon = Monitor()


def units(tier):
    return [{'k': 'rand', 'i': i} for i in range(N_CASES[tier])]


def setup(ctx):
    from gemdat import Trajectory

    from .. import retain as _rt

    _mon.attach(Trajectory, 'drift', label='Trajectory.drift', retain=_rt.auto, scribble=True)
    _mon.attach(Trajectory, 'apply_drift_correction', label='Trajectory.apply_drift_correction')


def teardown(ctx):
    _mon.flush_counts(ctx)
    _mon.detach_all()


ALL_PRESENT = [()]


def as_form(rng, names, form):
    names = list(names)
    if form == 'str' and len(names) == 1:
        return names[0]
    if form == 'tuple':
        return tuple(names)
    if form == 'set':
        return set(names)
    if form == 'long':
        # every element of the periodic table except the others present (fixed_species=[el.symbol for el in Element if ...])
        from pymatgen.core import Element

        present_other = set(ALL_PRESENT[0]) - set(names)
        return [e_.symbol for e_ in Element if e_.symbol not in present_other and e_.symbol not in ('D', 'T')]
    if form == 'keys':
        return {n_: True for n_ in names}.keys()
    if form == 'repeated':
        # a collection that names a species more than once, with unequal multiplicities (e.g. a per-atom list
        # [sp.symbol for sp in structure.species if ...]) and in arbitrary order
        out = [n for n in names for _ in range(int(rng.integers(1, 4)))]
        out = [out[i] for i in rng.permutation(len(out))]
        return out if rng.integers(2) else tuple(out)
    return list(names)


def run_unit(unit, rng, ctx):
    kind, rot, m = geom.random_lattice(rng)
    T = int(rng.integers(2, 60))
    n_sp = int(rng.integers(2, 5))
    symbols = [str(s) for s in rng.choice(SYMBOLS, size=n_sp, replace=False)]
    if rng.uniform() < 0.4 and 'S' not in symbols:
        symbols[0] = 'S'
    if rng.uniform() < 0.4 and 'Si' not in symbols and 'S' in symbols:
        symbols[-1 if symbols[-1] != 'S' else 0] = 'Si'
    if unit['i'] % 6 == 2 and 'H' not in symbols:
        symbols[int(rng.integers(len(symbols)))] = 'H'
    symbols = list(dict.fromkeys(symbols))
    if len(symbols) < 2:
        symbols = ['S', 'Si']
    counts = rng.integers(1, 4, size=len(symbols))
    names = [s for s, c in zip(symbols, counts) for _ in range(c)]
    names = [str(x) for x in rng.permutation(names)]
    N = len(names)
    U = gen.random_walk(rng, T, N, max_step=0.15)
    # a common motion of all atoms (what drift correction is for) on top of the individual walks
    common = np.cumsum(rng.uniform(-0.05, 0.05, size=(T, 1, 3)) * (np.arange(T) > 0)[:, None, None], axis=0)
    U = U + common
    slow = unit['i'] % 5 == 4
    if slow:
        # a nearly static crystal with a very slow common drift: per-frame steps of 1e-10 .. 1e-8 cell
        amp = 10.0 ** float(rng.uniform(-10, -8))
        U = U[:1] + np.cumsum(rng.uniform(-1, 1, size=(T, N, 3)) * amp * 0.1 + rng.uniform(-1, 1, size=(T, 1, 3)) * amp, axis=0) * (np.arange(T) > 0)[:, None, None]
        ctx.count('slow_drift_cases(steps<=1e-8)')
    species_mode = str(rng.choice(['element', 'species', 'mixed']))
    sp = gen.species_objects(names, rng=rng, mode=species_mode)
    if 'H' in names:
        # hydrogen isotopes: deuterium / tritium atoms are species of the symbol 'H' (pymatgen: name 'D', symbol 'H')
        from pymatgen.core import Element

        sp = [Element(str(rng.choice(['H', 'D', 'T']))) if n_ == 'H' else s_ for n_, s_ in zip(names, sp)]
        ctx.count('cases_with_hydrogen_isotopes', any(getattr(s_, 'name', 'H') in ('D', 'T') for s_ in sp))
    dt = 1e-15
    meta = {'temperature': float(rng.integers(100, 1000)), 'tag': int(unit['i'])}

    mode = str(rng.choice(['fixed', 'floating', 'none'], p=[0.4, 0.45, 0.15]))
    k = int(rng.integers(1, len(symbols)))
    chosen = [str(x) for x in rng.choice(symbols, size=k, replace=False)]
    ALL_PRESENT[0] = tuple(symbols)
    form = str(rng.choice(['str', 'list', 'tuple', 'set', 'repeated', 'long', 'keys']))
    if mode == 'fixed':
        ref_symbols = set(chosen)
        kwargs = {'fixed_species': as_form(rng, chosen, form)}
        other = {'floating_species': [s for s in symbols if s not in ref_symbols]}
    elif mode == 'floating':
        ref_symbols = set(symbols) - set(chosen)
        kwargs = {'floating_species': as_form(rng, chosen, form)}
        other = {'fixed_species': [s for s in symbols if s in ref_symbols]}
    else:
        ref_symbols = set(symbols)
        # "none": no argument at all, or the arguments spelled out as None / an empty collection (a default taken
        # from a configuration); an empty selection names no reference set, so the reference is every atom
        kwargs = [{}, {}, {'fixed_species': None}, {'fixed_species': ()}, {'fixed_species': []}, {'floating_species': []}, {'floating_species': None, 'fixed_species': ''}, {'floating_species': ()}][int(rng.integers(8))]
        other = None
        if any(v is not None for v in kwargs.values()):
            ctx.count('none_spelled_as_empty_collection')
    ref = np.array([n in ref_symbols for n in names])
    what = f'{kind}{"/rot" if rot else ""} T={T} species={names} {mode}={kwargs} ({species_mode})'

    def model(Uin):
        steps = np.diff(Uin, axis=0, prepend=Uin[:1])
        drift = steps[:, ref].mean(axis=1, keepdims=True)
        return drift, Uin[:1] + np.cumsum(steps - drift, axis=0)

    def run(Uin, tag):
        traj = gen.make_trajectory(m, sp, Uin - np.floor(Uin) if rng.integers(2) else Uin.copy(), time_step=dt, metadata=dict(meta))
        if rng.integers(2):
            _ = traj.displacements  # start from the other internal representation
        try:
            drift = np.asarray(traj.drift(**kwargs))
        except (ValueError, TypeError) as e:
            if mode == 'none' and kwargs:
                # an explicit empty selection may be refused loudly; it may not silently give another answer
                ctx.count('empty_selection_refused_loudly')
                return None
            raise
        corr = traj.apply_drift_correction(**kwargs)
        d_want, c_want = model(Uin)
        ctx.check(drift.shape == d_want.shape and bool(np.all(np.isfinite(drift))) and float(np.abs(drift - d_want).max()) <= (1e-13 if slow else 1e-9), f'{what}{tag}: drift() is not the mean per-frame displacement of the reference species (finite={bool(np.all(np.isfinite(drift)))})', {'names': names, 'ref': ref, 'got': drift[:5], 'want': d_want[:5]})
        cd = np.asarray(corr.displacements)
        resid = np.abs(cd[:, ref].mean(axis=1))
        ctx.check(bool(np.all(np.isfinite(cd))) and float(resid.max()) <= 1e-12, f'{what}{tag}: residual mean displacement of the reference species after correction is {resid.max():.3e}', {'names': names, 'ref': ref})
        cp = np.asarray(corr.positions)
        ctx.check(float(geom.circ_diff(cp, c_want).max()) <= 1e-9, f'{what}{tag}: corrected positions differ from (steps - reference drift) accumulated from the first frame; max dev {geom.circ_diff(cp, c_want).max():.3e}', {'names': names, 'ref': ref})
        ctx.check(float(geom.circ_diff(cp[0], Uin[0]).max()) <= 1e-12, f'{what}{tag}: first frame changed by the drift correction')
        same_meta = (
            [s.symbol for s in corr.species] == names
            and np.allclose(corr.get_lattice().matrix, m, rtol=0, atol=1e-12)
            and corr.time_step == dt
            and corr.metadata == meta
        )
        ctx.check(bool(same_meta), f'{what}{tag}: species / lattice / time step / metadata changed by the drift correction', {'species': [str(s) for s in corr.species], 'time_step': corr.time_step, 'metadata': corr.metadata})
        again = corr.apply_drift_correction(**kwargs)
        ctx.check(float(geom.circ_diff(np.asarray(again.positions), cp).max()) <= 1e-9, f'{what}{tag}: applying the correction twice changes the positions (max {geom.circ_diff(np.asarray(again.positions), cp).max():.3e})')
        if other is not None:
            d2 = np.asarray(traj.drift(**other))
            c2 = np.asarray(traj.apply_drift_correction(**other).positions)
            ctx.check(d2.shape == drift.shape and float(np.abs(np.nan_to_num(d2 - drift, nan=1.0)).max()) <= 1e-12 and float(geom.circ_diff(c2, cp).max()) <= 1e-9, f'{what}{tag}: {kwargs} and {other} are not equivalent', {'names': names})
        # the same trajectory asked for the drift of ANOTHER reference set answers for that set
        sym_x = symbols[int(rng.integers(len(symbols)))]
        ref_x = np.array([n_ == sym_x for n_ in names])
        steps_x = np.diff(Uin, axis=0, prepend=Uin[:1])
        want_x = steps_x[:, ref_x].mean(axis=1, keepdims=True)
        got_x = np.asarray(traj.drift(fixed_species=sym_x))
        ctx.check(got_x.shape == want_x.shape and float(np.abs(np.nan_to_num(got_x - want_x, nan=1.0)).max()) <= 1e-9, f'{what}{tag}: a further drift(fixed_species={sym_x!r}) on the same trajectory is not the mean displacement of {sym_x}', {'names': names})
        ctx.count('further_drift_query_with_another_reference_set')
        return cd

    # a lost atom: a NON-reference atom whose coordinates are NaN in a few frames does not enter the reference drift
    if unit['i'] % 8 == 3 and (~ref).any() and T >= 4:
        a_nan = int(rng.choice(np.nonzero(~ref)[0]))
        t_nan = int(rng.integers(1, T - 1))
        Un = U.copy()
        Un[t_nan : t_nan + 2, a_nan] = np.nan
        trn = gen.make_trajectory(m, sp, Un, time_step=dt, metadata=dict(meta), presentation='plain')
        with warnings.catch_warnings():
            warnings.simplefilter('ignore')
            dn = np.asarray(trn.drift(**kwargs))
        st_n = np.diff(U, axis=0, prepend=U[:1])
        dw = st_n[:, ref].mean(axis=1, keepdims=True)
        ctx.check(dn.shape == dw.shape and bool(np.all(np.isfinite(dn))) and float(np.abs(dn - dw).max()) <= 1e-9, f'{what} [non-reference atom {a_nan} has NaN coordinates in frames {t_nan}-{t_nan + 1}]: drift() of the reference species is not their mean displacement (finite: {bool(np.all(np.isfinite(dn)))})', {'names': names, 'ref': ref})
        ctx.count('cases_with_a_lost_non_reference_atom(NaN)')
    # a step of more than half a cell RELATIVE to the reference species (a hop of +0.40 while the reference moves
    # -0.15; every laboratory-frame step stays below half a cell): the corrected step is +0.55, not its periodic
    # image -0.45.  Only the object as returned is examined, before anything switches its representation
    # (a displacement beyond half a cell cannot survive a round trip through wrapped positions - C01).
    if unit['i'] % 7 == 5 and (~ref).any() and ref.any() and T >= 3:
        Ub = U.copy()
        t_h, c_h = int(rng.integers(1, T)), int(rng.integers(3))
        a_h = int(rng.choice(np.nonzero(~ref)[0]))
        st_ = np.diff(Ub, axis=0, prepend=Ub[:1])
        st_[t_h, :, c_h] = rng.uniform(-0.02, 0.02, size=N)
        st_[t_h, ref, c_h] += -0.15
        st_[t_h, a_h, c_h] = float(rng.uniform(0.38, 0.45))
        sgn = float(rng.choice([-1.0, 1.0]))
        st_[t_h, :, c_h] *= sgn
        Ub = Ub[:1] + np.cumsum(st_, axis=0)
        trb = gen.make_trajectory(m, sp, Ub - np.floor(Ub), time_step=dt, metadata=dict(meta), presentation='plain')
        corr_b = trb.apply_drift_correction(**kwargs)
        got_b = np.asarray(corr_b.displacements) if corr_b.coords_are_displacement else None
        drift_b = st_[:, ref].mean(axis=1, keepdims=True)
        if got_b is not None:
            dev_b = float(np.abs(got_b - (st_ - drift_b)).max())
            ctx.check(dev_b <= 1e-9, f'{what} [atom {a_h} hops {st_[t_h, a_h, c_h]:+.2f} while the reference moves {drift_b[t_h, 0, c_h]:+.2f} in frame {t_h}]: corrected displacements differ from (steps - reference drift) by {dev_b:.3f} (a whole lattice vector = periodic image of the step)', {'names': names, 'ref': ref})
            ctx.count('relative_steps_beyond_half_a_cell')
        else:
            ctx.count('relative_step_case_not_examined(result stored as positions)')
    cd0 = run(U, '')
    # injected rigid, time-dependent translation of all atoms
    gs = rng.uniform(-0.2, 0.2, size=(T, 1, 3))
    gs[0] = 0
    g = np.cumsum(gs, axis=0) + (rng.uniform(-1, 1, size=(1, 1, 3)) if rng.integers(2) else 0.0)
    cd1 = run(U + g, ' [+rigid drift]')
    if cd0 is None or cd1 is None:
        cd0 = cd1 = np.zeros(1)
    ctx.check(float(np.abs(cd0 - cd1).max()) <= 1e-9, f'{what}: corrected motion depends on an injected rigid translation (max dev {np.abs(cd0 - cd1).max():.3e})', {'names': names})
    ctx.count(f'mode:{mode}')
    ctx.count(f'form:{form}')
    ctx.count(f'species_objects:{species_mode}')
    ctx.count('S_and_Si_present', 'S' in symbols and 'Si' in symbols)
    ctx.count(f'lattice:{kind}')
    ctx.case(signature(U, names, mode, sorted(chosen), form), 0 < ref.sum() < N or mode == 'none' and len(symbols) > 1, sample={'lattice': kind, 'T': T, 'species': names, 'call': {k: sorted(v) if isinstance(v, (set, list, tuple)) else v for k, v in kwargs.items()}, 'species_objects': species_mode})
