"""C08 — density volumes conserve every sample and use a consistent voxel mapping."""
from __future__ import annotations

import warnings

import numpy as np

from .. import gen, geom, snap
from ..core import signature
from ..monitor import Monitor

ID = 'C08'
LEVEL = 'exploration'
RULE = (
    'cases: (a) trajectories of 1-5 atoms x 1-30 frames in lattice-zoo cells, positions uniform, on exact voxel '
    'edges k/n, and from the hostile face set (0, -0.0, 1, -1e-17, 1-1e-16, ...); resolutions from 0.15 A up to the '
    'shortest cell length, a third of them chosen so that L/resolution is an integer (+-1 ulp); every eighth case has one very long axis (130 .. 70 000 voxels along it, 1-3 across).  Oracle: np.add.at '
    'histogram on floor(x n) per axis; a coordinate within 1e-9 of a voxel edge may fall on either side, except on power-of-two grids where k/n is exact and must land in voxel k.  (b) '
    'voxel -> fractional centre -> voxel round trip for EVERY index of EVERY grid size 1..N on each axis (quick '
    'N=3000, thorough N=20000), exhaustive.  Non-trivial (a) = at least one sample on a voxel edge or hostile value '
    'and a non-cubic grid; distinct = SHA-1 of (cell, resolution, positions) / grid size.'
)
RULE += ' Added in rounds 6-9: result retention and a second volume on the same grid while the first is held; L/resolution within 1e-8..6e-4 of an integer; one grid of about 19 million voxels (large along all three axes).'
RULE += ' Round 16: a sixth of the runs also stored in single precision (voxel-edge values k/n rounded to float32).'
RULE += ' Round 14: the resolution is passed positionally in half of the calls.'
RULE += ' Round 12: one volume (three in the thorough tier) binned from 4.3-5.5 million samples clustered in a few voxels, compared with a bincount of floor(x * n).'
ASSUMPTIONS = [
    'a coordinate whose product with the grid size is within 1e-9 of an integer may be counted in either neighbouring voxel',
    'size inequalities use 1e-12 relative slack',
]
N_CASES = {'quick': 400, 'thorough': 60000}
RT_MAX = {'quick': 3000, 'thorough': 50000}
RT_CHUNK = 250
BUDGET_S = {'quick': 200, 'thorough': 3600}

_mon = Monitor()


def exhaustive(tier):
    return {'complete': True, 'what': 'voxel round trip for every index of every grid size on each axis', 'grid_sizes': [1, RT_MAX[tier]], 'indices': RT_MAX[tier] * (RT_MAX[tier] + 1) // 2 * 3}


def units(tier):
    out = [{'k': 'rt', 'lo': lo, 'hi': min(RT_MAX[tier] + 1, lo + RT_CHUNK)} for lo in range(1, RT_MAX[tier] + 1, RT_CHUNK)]
    out += [{'k': 'rand', 'i': i} for i in range(N_CASES[tier])]
    # grids that are large in all three directions at once (tens of millions of voxels)
    out += [{'k': 'big3d', 'i': i} for i in range(1 if tier == 'quick' else 4)]
    out += [{'k': 'many', 'i': i} for i in range(1 if tier == 'quick' else 3)]
    return out


def setup(ctx):
    import gemdat.volume as gv_

    from .. import retain as _rt

    _mon.attach(gv_, 'trajectory_to_volume', label='volume.trajectory_to_volume', retain=_rt.volume, scribble=True)
    _mon.attach(gv_.Volume, 'voxel_to_frac_coords', label='Volume.voxel_to_frac_coords')
    _mon.attach(gv_.Volume, 'frac_coords_to_voxel', label='Volume.frac_coords_to_voxel')


def teardown(ctx):
    _mon.flush_counts(ctx)
    _mon.detach_all()


def run_roundtrip(unit, rng, ctx):
    from gemdat.volume import Volume
    from pymatgen.core import Lattice

    lat = Lattice(np.diag([3.0, 4.0, 5.0]))
    for n in range(unit['lo'], unit['hi']):
        for axis in range(3):
            shape = [1, 1, 1]
            shape[axis] = n
            vol = Volume(data=np.zeros(shape, dtype=np.int8), lattice=lat)
            vox = np.zeros((n, 3), dtype=int)
            vox[:, axis] = np.arange(n)
            frac = np.asarray(vol.voxel_to_frac_coords(vox))
            back = np.asarray(vol.frac_coords_to_voxel(frac))
            good = back.shape == vox.shape and np.array_equal(back, vox) and bool(np.all((frac[:, axis] > 0) & (frac[:, axis] < 1)))
            centre = bool(np.allclose(frac[:, axis], (np.arange(n) + 0.5) / n, rtol=0, atol=1e-15))
            ctx.decided(n)
            if not (good and centre):
                bad = int(np.argmax(np.any(back != vox, axis=1))) if back.shape == vox.shape else -1
                ctx.violation(f'grid size {n}, axis {axis}: voxel {bad} -> frac {frac[bad].tolist() if bad >= 0 else None} -> voxel {back[bad].tolist() if bad >= 0 else back.shape} (centre formula ok={centre})', {'n': n, 'axis': axis})
        # the alternate entry points of the same mapping, on a skewed cell and a grid that is n voxels along one axis:
        # voxel -> Cartesian centre, PeriodicSite -> voxel, batches of 1..5 voxels
        from pymatgen.core import PeriodicSite

        m_sk = geom.matrix_from_parameters(4.0, 5.0, 6.0, 80.0, 95.0, 110.0)
        lat_sk = Lattice(m_sk)
        sh = [int(rng.integers(1, 5)), int(rng.integers(1, 5)), int(rng.integers(1, 5))]
        sh[int(rng.integers(3))] = n
        vol_sk = Volume(data=np.zeros(sh, dtype=np.int8), lattice=lat_sk)
        for nb_ in (1, 2, 3, 4, 5):
            V = np.stack([rng.integers(0, s_, size=nb_) for s_ in sh], axis=1)
            fc = np.asarray(vol_sk.voxel_to_frac_coords(V))
            cc = np.asarray(vol_sk.voxel_to_cart_coords(V))
            wantf = (V + 0.5) / np.array(sh)
            bk = np.asarray(vol_sk.frac_coords_to_voxel(fc))
            ctx.check(fc.shape == wantf.shape and np.allclose(fc, wantf, rtol=0, atol=1e-15) and np.allclose(cc, wantf @ m_sk, rtol=1e-12, atol=1e-12) and np.array_equal(bk, V), f'grid {sh}: batch of {nb_} voxels {V.tolist()} -> fractional {np.round(fc, 4).tolist()} / Cartesian centres -> voxels {bk.tolist() if hasattr(bk, "tolist") else bk}', {'grid': sh, 'voxels': V})
        fr = rng.uniform(0, 1, size=3)
        sv = np.asarray(vol_sk.site_to_voxel(PeriodicSite('Li', fr, lat_sk)))
        ctx.check(sv.tolist() == np.floor(fr * np.array(sh)).astype(int).tolist(), f'grid {sh}: site_to_voxel of a site at {fr.tolist()} gives {sv.tolist()}, floor(frac x grid) is {np.floor(fr * np.array(sh)).astype(int).tolist()}', {'grid': sh})
        # a single voxel index (not an array) must behave the same
        v1 = [int(rng.integers(n)), 0, 0]
        vol = Volume(data=np.zeros((n, 1, 1), dtype=np.int8), lattice=lat)
        b1 = np.asarray(vol.frac_coords_to_voxel(vol.voxel_to_frac_coords(v1)))
        ctx.check(b1.tolist() == v1, f'grid size {n}: single voxel {v1} round-trips to {b1.tolist()}')
        ctx.case(f'grid{n}', n > 1, sample={'kind': 'roundtrip', 'grid_size': n} if n in (unit['lo'], unit['hi'] - 1) else None)
    ctx.count('roundtrip_indices', sum(3 * n for n in range(unit['lo'], unit['hi'])))


def run_big3d(unit, rng, ctx):
    """A fine grid on a large cell: a few hundred voxels along EVERY axis (the requested resolution is honoured)."""
    lens = rng.uniform(25.0, 29.0, size=3)
    m = geom.matrix_from_parameters(*lens, 90, float(rng.choice([90, 95])), 90)
    if rng.integers(2):
        m = m @ geom.random_rotation(rng).T
    lengths = np.linalg.norm(m, axis=1)
    res = float(rng.uniform(0.098, 0.104))
    T, N = int(rng.integers(2, 6)), int(rng.integers(1, 4))
    X = rng.uniform(0, 1, size=(T, N, 3))
    traj = gen.make_trajectory(m, gen.species_objects(['Li'] * N), X)
    vol = traj.to_volume(resolution=res)
    data = np.asarray(vol.data)
    n = np.array(data.shape)
    what = f'large cell {np.round(lengths, 2).tolist()} resolution={res:.4f} grid {n.tolist()}'
    size = lengths / n
    ctx.check(bool(np.all(size >= res * (1 - 1e-12)) and np.all(size < 2 * res * (1 + 1e-12))), f'{what}: voxel edges {size.tolist()} not in [resolution, 2 x resolution)', {'matrix': m, 'resolution': res})
    ctx.check(int(data.sum()) == T * N, f'{what}: voxel sum {int(data.sum())} != frames x atoms {T * N}')
    idx = np.floor(X.reshape(-1, 3) * n).astype(int)
    want = {}
    for i_ in map(tuple, idx):
        want[i_] = want.get(i_, 0) + 1
    got = {tuple(int(x) for x in ix): int(data[tuple(ix)]) for ix in np.argwhere(data)}
    ctx.check(got == want, f'{what}: occupied voxels {sorted(got.items())[:4]} are not floor(x * n) of the samples {sorted(want.items())[:4]}')
    ctx.count('grids_large_in_all_three_directions')
    ctx.count('voxels_in_the_largest_grid', int(data.size))
    ctx.case(f'big3d{unit["i"]}', True, sample={'kind': 'big3d', 'grid': n.tolist(), 'voxels': int(data.size), 'resolution': res})


def run_manysamples(unit, rng, ctx):
    """A long run: 4.3-5.5 million samples (frames x atoms) on a coarse grid, most of them clustered in a few voxels."""
    kind, rot, m = geom.random_lattice(rng, lo=4.0, hi=8.0)
    N = int(rng.integers(2, 6))
    T = int(rng.integers(4_300_000, 5_500_000)) // N + 1
    res = float(rng.uniform(0.4, 0.7))
    centres = rng.uniform(0, 1, size=(N, 3))
    X = centres[None] + rng.normal(0, 0.03, size=(T, N, 3))
    hop = rng.uniform(size=(T, N)) < 0.02
    X[hop] = rng.uniform(0, 1, size=(int(hop.sum()), 3))
    X -= np.floor(X)
    X[X == 1] = 0
    traj = gen.make_trajectory(m, gen.species_objects(['Li'] * N), X, presentation='plain')
    vol = traj.to_volume(resolution=res)
    data = np.asarray(vol.data)
    n = np.array(data.shape)
    what = f'{kind} {T} frames x {N} atoms = {T * N} samples, grid {n.tolist()}'
    ctx.check(int(data.sum()) == T * N, f'{what}: voxel sum {int(data.sum())} != frames x atoms {T * N}')
    scaled = X.reshape(-1, 3) * n
    idx = np.floor(scaled).astype(int)
    # samples within 1e-9 voxel of a voxel face may be binned on either side
    amb = int(np.sum(np.abs(scaled - np.round(scaled)) < 1e-9))
    want = np.bincount(np.ravel_multi_index(idx.T, tuple(n)), minlength=int(data.size)).reshape(tuple(n))
    dev = int(np.abs(data - want).sum())
    ctx.check(data.shape == want.shape and dev <= 2 * amb, f'{what}: voxel counts differ from the number of samples with floor(x * n) in each voxel (total deviation {dev}, at most {amb} samples lie on a voxel face); e.g. voxel {np.unravel_index(int(np.argmax(np.abs(data - want))), want.shape)} holds {int(data.flat[int(np.argmax(np.abs(data - want)))])} of {int(want.flat[int(np.argmax(np.abs(data - want)))])}', {'matrix': m, 'resolution': res})
    ctx.count('volumes_from_more_than_4.3e6_samples')
    ctx.count('samples_in_the_largest_run', T * N)
    ctx.case(f'many{unit["i"]}', True, sample={'kind': 'manysamples', 'frames': T, 'atoms': N, 'grid': n.tolist()})


def run_unit(unit, rng, ctx):
    if unit['k'] == 'many':
        return run_manysamples(unit, rng, ctx)
    if unit['k'] == 'rt':
        return run_roundtrip(unit, rng, ctx)
    if unit['k'] == 'big3d':
        return run_big3d(unit, rng, ctx)
    kind, rot, m = geom.random_lattice(rng, lo=3.0, hi=10.0)
    long_axis = unit['i'] % 8 == 3
    if long_axis:
        # one very long axis: grids with hundreds to tens of thousands of voxels along it
        res0 = float(rng.uniform(0.15, 0.4))
        n_long = int(rng.choice([130, 260, 300, 1000, 33000, 66000, 70000]))
        ax = int(rng.integers(3))
        lens = res0 * rng.uniform(1.1, 3.9, size=3)
        lens[ax] = res0 * (n_long + 0.5)
        m = geom.matrix_from_parameters(*lens, 90, float(rng.choice([90, 100, 115])) if ax != 1 else 90, 90)
        if rng.integers(2):
            m = m @ geom.random_rotation(rng).T
        kind, rot = 'long_axis', True
    lengths = np.linalg.norm(m, axis=1)
    T = int(rng.integers(1, 31))
    N = int(rng.integers(1, 6))
    u = rng.uniform()
    if long_axis:
        res = res0
        res_mode = 'long_axis'
    elif u < 0.13:
        # L / resolution slightly below / above an integer (by 1e-8 .. 6e-4): floor(L / resolution) decides
        k = int(rng.integers(2, 40))
        delta = float(10.0 ** rng.uniform(-8, -3.2)) * float(rng.choice([-1.0, 1.0]))
        res = float(lengths[int(rng.integers(3))] / (k + delta))
        res_mode = 'near_integer_ratio'
    elif u < 0.33:
        k = int(rng.integers(1, 40))
        res = float(lengths[int(rng.integers(3))] / k)
        res = float(np.nextafter(res, res + rng.choice([-1.0, 0.0, 1.0])))
        res_mode = 'integer_ratio'
    elif u < 0.45:
        res = float(lengths.min() * rng.uniform(0.7, 1.0))
        res_mode = 'coarse'
    elif u < 0.62:
        # power-of-two grid along one axis: voxel edges k/n are exact binary fractions
        res = float(lengths[int(rng.integers(3))] / int(rng.choice([2, 4, 8, 16])) * (1 - 1e-9))
        res_mode = 'dyadic'
    else:
        res = float(rng.uniform(0.15, min(2.0, lengths.min())))
        res_mode = 'random'
    if res > lengths.min():
        res = float(lengths.min())
    n_exp = np.maximum(np.floor(lengths / res + 1e-9), 1).astype(int)
    X = rng.uniform(0, 1, size=(T, N, 3))
    sel = rng.uniform(size=X.shape)
    edges = rng.integers(0, n_exp[None, None, :] + 1, size=X.shape) / n_exp[None, None, :]
    H = np.array(gen.HOSTILE)
    hostile = H[rng.integers(len(H), size=X.shape)]
    p_edge, p_host = float(rng.choice([0.0, 0.1, 0.4])), float(rng.choice([0.0, 0.1, 0.4]))
    X = np.where(sel < p_edge, edges, np.where(sel < p_edge + p_host, hostile, X))
    traj = gen.make_trajectory(m, gen.species_objects(['Li'] * N), X)
    if unit['i'] % 6 == 2:
        # the same kind of run stored in single precision (coordinates k/10, k/7 ... as float32 are not the float64
        # k/10): every sample lies in voxel floor(x n) of the value it actually has
        from gemdat import Trajectory
        from pymatgen.core import Lattice

        X32 = np.asarray(np.where(rng.uniform(size=X.shape) < 0.6, rng.integers(0, n_exp[None, None, :], size=X.shape) / n_exp[None, None, :], np.mod(X, 1)), dtype=np.float32)  # k/n of the expected grid, rounded to float32 (half of them fall just below k/n)
        X32[X32 >= 1] = 0
        t32 = Trajectory(species=gen.species_objects(['Li'] * N), coords=X32.copy(), lattice=Lattice(m), time_step=1e-15, metadata={'temperature': 300.0})
        d32 = np.asarray(t32.to_volume(resolution=res).data)
        n32 = np.array(d32.shape)
        sc32 = np.asarray(X32, dtype=float).reshape(-1, 3) * n32
        amb32 = int(np.sum(np.abs(sc32 - np.round(sc32)) < 1e-9))
        want32 = np.bincount(np.ravel_multi_index(np.minimum(np.floor(sc32).astype(int), n32 - 1).T, tuple(n32)), minlength=int(d32.size)).reshape(tuple(n32))
        dev32 = int(np.abs(d32 - want32).sum())
        ctx.check(int(d32.sum()) == T * N and dev32 <= 2 * amb32, f'{kind} T={T} N={N} resolution={res!r} [float32 coordinates]: voxel counts differ from floor(x n) of the stored values (total deviation {dev32}, {amb32} samples on a voxel face, grid {n32.tolist()})', {'matrix': m, 'resolution': res})
        ctx.count('volumes_from_float32_coordinates')
    what = f'{kind}{"/rot" if rot else ""} T={T} N={N} resolution={res!r} ({res_mode})'
    wit = {'matrix': m, 'resolution': res, 'positions': X}
    before = snap.traj_content(traj)
    if unit['i'] % 3 == 1:
        # history: an earlier volume (other resolution) was already computed from the same object
        _ = traj.to_volume(resolution=float(lengths.min() / rng.uniform(1.5, 4.0)))
        if rng.integers(2):
            _ = traj.displacements
        ctx.count('cases_with_earlier_volume_call')
    if unit['i'] % 2:
        from gemdat.volume import trajectory_to_volume

        # the resolution is the second documented parameter of both entry points: positional and keyword calls
        vol = trajectory_to_volume(traj, resolution=res) if unit['i'] % 4 == 1 else trajectory_to_volume(traj, res)
        ctx.count('via_volume.trajectory_to_volume')
        ctx.count('resolution_passed_positionally', unit['i'] % 4 != 1)
    else:
        vol = traj.to_volume(resolution=res) if unit['i'] % 4 == 0 else traj.to_volume(res)
        ctx.count('resolution_passed_positionally', unit['i'] % 4 != 0)
    data = np.asarray(vol.data)
    chg = snap.diff_traj_content(before, snap.traj_content(traj))
    ctx.check(chg is None, f'{what}: to_volume modified the trajectory it was computed from: {chg}', wit)
    n = np.array(data.shape)
    ctx.check(data.ndim == 3 and bool(np.all(n >= 1)), f'{what}: volume has shape {data.shape}', wit)
    ctx.check(int(data.sum()) == T * N and bool(np.all(data >= 0)), f'{what}: voxel sum {int(data.sum())} != frames x atoms {T * N}', wit)
    if unit['i'] % 3 == 0 and data.size <= 2_000_000:
        # another trajectory in the same cell at the same resolution (same grid shape) is binned while the first
        # volume is still in use: the first volume keeps its own counts
        first = data.copy()
        T_b, N_b = int(rng.integers(1, 20)), int(rng.integers(1, 5))
        vol_b = gen.make_trajectory(m, gen.species_objects(['Na'] * N_b), rng.uniform(0, 1, size=(T_b, N_b, 3))).to_volume(resolution=res)
        ctx.check(int(np.asarray(vol_b.data).sum()) == T_b * N_b, f'{what}: second volume on the same grid: voxel sum {int(np.asarray(vol_b.data).sum())} != frames x atoms {T_b * N_b}', wit)
        ctx.check(np.array_equal(np.asarray(vol.data), first), f'{what}: the first volume changed when a second trajectory was binned on the same grid (sum {int(np.asarray(vol.data).sum())}, was {int(first.sum())})', wit)
        ctx.count('second_volumes_on_the_same_grid')
    if unit['i'] % 16 == 5:
        # a lost atom (NaN coordinates in one frame) has no voxel: the library must refuse (it asserts the range of
        # the coordinates), never hand out a volume that silently counts fewer samples than frames x atoms
        Xn = np.array(X, dtype=float)
        Xn[int(rng.integers(T)), int(rng.integers(N))] = np.nan
        tn = gen.make_trajectory(m, gen.species_objects(['Li'] * N), Xn, presentation='plain')
        try:
            with warnings.catch_warnings():
                warnings.simplefilter('ignore')
                vn = tn.to_volume(resolution=res)
        except Exception:  # noqa: BLE001  (any loud refusal is fine)
            ctx.decided()
            ctx.count('lost_atom_refused_loudly')
        else:
            ctx.check(int(np.asarray(vn.data).sum()) == T * N, f'{what}: a trajectory with a NaN coordinate was binned without complaint; the voxel sum is {int(np.asarray(vn.data).sum())}, frames x atoms is {T * N}', wit)
    size = lengths / n
    ctx.check(bool(np.all(size >= res * (1 - 1e-12)) and np.all(size < 2 * res * (1 + 1e-12))), f'{what}: voxel edges {size.tolist()} not in [resolution, 2 x resolution) (grid {n.tolist()}, lengths {lengths.tolist()})', wit)
    ctx.check(np.allclose(np.asarray(vol.voxel_size), size, rtol=1e-12), f'{what}: voxel_size {np.asarray(vol.voxel_size).tolist()} != lengths / grid {size.tolist()}', wit)
    # where must every sample be?
    # the positions as the trajectory reports them now (a displacement round trip may have moved a
    # coordinate by an ulp, which matters for samples exactly on a voxel edge); that they still are
    # the input positions (to 1e-9) is asserted above
    P = np.array(traj.positions, dtype=float)
    flat = P.reshape(-1, 3)
    prod = flat * n
    idx = np.floor(prod).astype(int)
    idx = np.minimum(idx, n - 1)
    near = np.abs(prod - np.round(prod)) < 1e-9
    # on a power-of-two grid an exactly representable k/n is not a knife edge: floor(x n) = k exactly
    pow2 = (n & (n - 1)) == 0
    exact = (prod == np.round(prod)) & pow2[None, :]
    near &= ~exact
    ctx.count('exact_dyadic_edge_samples', int(exact.sum()))
    sure = ~near.any(axis=1)
    want = np.zeros(data.shape, dtype=int)
    np.add.at(want, tuple(idx[sure].T), 1)
    slack = np.zeros(data.shape, dtype=int)
    for row, pr, nr in zip(idx[~sure], prod[~sure], near[~sure]):
        opts = []
        for ax in range(3):
            if nr[ax]:
                e = int(np.round(pr[ax]))
                opts.append(sorted({(e - 1) % n[ax], e % n[ax]}))
            else:
                opts.append([row[ax]])
        for a in opts[0]:
            for b in opts[1]:
                for c in opts[2]:
                    slack[a, b, c] += 1
    okv = bool(np.all(data >= want) and np.all(data <= want + slack))
    if not okv:
        bad = np.argwhere((data < want) | (data > want + slack))[0]
        ctx.check(False, f'{what}: voxel {bad.tolist()} holds {int(data[tuple(bad)])} samples, floor(x*n) puts {int(want[tuple(bad)])} (+{int(slack[tuple(bad)])} on an edge) there', wit)
    else:
        ctx.decided()
    if unit['i'] % 3 == 2:
        again = np.asarray(traj.to_volume(resolution=res).data)
        ctx.check(again.shape == data.shape and np.array_equal(again, data), f'{what}: a second to_volume call on the same trajectory gives a different volume', wit)
    # the converters agree with the binning on a few samples that are clear of the edges
    if sure.any():
        pick = flat[sure][: 5]
        got = np.asarray(vol.frac_coords_to_voxel(pick))
        ctx.check(np.array_equal(got, np.floor(pick * n).astype(int)), f'{what}: frac_coords_to_voxel disagrees with floor(x*n)', wit)
    n_edge = int((~sure).sum())
    ctx.count('samples_binned', len(flat))
    ctx.count('samples_on_voxel_edge', n_edge)
    ctx.count(f'resolution_mode:{res_mode}')
    ctx.count(f'lattice:{kind}')
    ctx.case(signature(m, res, X), n_edge > 0 and len(set(n.tolist())) > 1, sample={'kind': 'volume', 'lattice': kind, 'resolution': res, 'grid': n.tolist(), 'T': T, 'N': N, 'samples_on_edge': n_edge, 'first_frame': X[0]})
