"""C10 — optimal and percolating paths are valid, correctly reported and cost-minimal."""
from __future__ import annotations

import itertools
import math

import numpy as np

from .. import geom, models
from ..core import signature
from ..monitor import Monitor

ID = 'C10'
LEVEL = 'exploration'
RULE = (
    'cases: random free-energy grids with 2-6 voxels per axis (mostly unequal axes), 0-40 % blocked voxels (energy '
    'far above, one ulp above or exactly at the threshold, inf or NaN; some admissible voxels one ulp below it), energies from random values or from -kT ln p of a random density; both neighbourhood '
    'modes; all five path-finding methods; all start/stop pairs for grids with <= 24 admissible voxels, 3 random '
    'pairs per method otherwise; percolating paths for all 7 direction sets with 1-4 peaks.  Oracle: own heap '
    'Dijkstra / union-find bottleneck over the periodic grid with the neighbourhood of the statement (26 or 6), cost '
    'criteria: simple = hops, dijkstra / bellman-ford = sum of mean endpoint energies, dijkstra-exp = sum of '
    'min(exp(mean), threshold), minmax-energy = maximum voxel energy.  Non-trivial = a returned path of at least 3 '
    'voxels on a grid with blocked voxels; distinct = SHA-1 of (grid, request).'
)
RULE += ' Added in rounds 6-9: walls exactly at / one ulp around the threshold, inf and NaN; Fortran-ordered grids; two mutually disconnected percolating networks; peaks on blocked voxels or isolated pockets listed anywhere in the peak list.'
RULE += ' Round 15: the n best paths are requested under all additive / hop criteria; the first one is the optimum under the criterion asked for.'
RULE += ' Round 14: percolating channels lying exactly at energy 0.0 (path cost 0.0); a quarter of the random grids with integer-valued energies and exact zeros.'
ASSUMPTIONS = [
    'costs compared at relative tolerance 1e-9',
    'K3 (4 corner moves missing) tolerated only if the cost equals the optimum over GEMDAT\'s 22-move set and exceeds the 26-move optimum',
    'K4 (minmax-energy returns the sum-optimal path) tolerated only if method == minmax-energy, the path is sum-optimal and its maximum exceeds the bottleneck optimum',
    'NetworkXNoPath / NodeNotFound (or None for percolation) is accepted iff the oracle finds the target unreachable',
]
N_CASES = {'quick': 280, 'thorough': 27000}
BUDGET_S = {'quick': 230, 'thorough': 3600}
K3 = 'K3-corner-moves-missing'
K4 = 'K4-minmax-energy-dead-branch'
METHODS = ['dijkstra', 'bellman-ford', 'minmax-energy', 'dijkstra-exp', 'simple']
EPS = 1e-9

_mon = Monitor()


def units(tier):
    return [{'k': 'rand', 'i': i} for i in range(N_CASES[tier])]


def setup(ctx):
    import gemdat.path as gp
    from gemdat.volume import FreeEnergyVolume

    _mon.attach(gp, 'free_energy_graph', label='path.free_energy_graph')
    from .. import retain as _rt

    _mon.attach(gp, 'optimal_path', label='path.optimal_path', retain=_rt.pathway)
    _mon.attach(gp, 'optimal_percolating_path', label='path.optimal_percolating_path', retain=_rt.pathway)
    _mon.attach(FreeEnergyVolume, 'optimal_path', label='FreeEnergyVolume.optimal_path', retain=_rt.pathway)
    _mon.attach(gp.Pathway, 'wrapped_sites', label='Pathway.wrapped_sites')
    _mon.attach(gp.Pathway, 'frac_sites', label='Pathway.frac_sites')


def teardown(ctx):
    _mon.flush_counts(ctx)
    _mon.detach_all()


def edge_cost_fn(Fd, method, thr):
    if method == 'simple':
        return lambda u, v: 1.0
    if method == 'dijkstra-exp':
        def f(u, v):
            w = 0.5 * (Fd[u] + Fd[v])
            e = math.exp(w) if w < 700 else float('inf')
            return e if e < thr else thr
        return f
    return lambda u, v: 0.5 * (Fd[u] + Fd[v])


def path_cost(sites, cost):
    return sum(cost(a, b) for a, b in zip(sites[:-1], sites[1:]))


def valid_steps(sites, shape, moves_nb, allowed):
    for a, b in zip(sites[:-1], sites[1:]):
        if b not in moves_nb[a]:
            return f'step {a} -> {b} is not between neighbouring voxels'
    for s in sites:
        if s not in allowed:
            return f'voxel {s} is not below the energy threshold'
    return None


def judge_cost(ctx, what, wit, method, c, o_full, o_gemdat, diagonal):
    """held / K3 / violation for an additive (or hop) criterion."""
    ctx.decided()
    tol = EPS * max(1.0, abs(o_full))
    if c <= o_full + tol:
        return 'held'
    if diagonal and c <= o_gemdat + EPS * max(1.0, abs(o_gemdat)) and o_gemdat > o_full + tol:
        ctx.known_finding(K3, f'{what}: returned cost {c!r} = optimum over the 22 moves GEMDAT lists, but an admissible path through a missing corner diagonal costs {o_full!r}')
        return 'K3'
    ctx.violation(f'{what}: returned path costs {c!r} under criterion {method}, but an admissible path costs {o_full!r} (22-move optimum {o_gemdat!r})', wit)
    return 'violation'


def run_unit(unit, rng, ctx):
    import networkx as nx
    from gemdat.volume import FreeEnergyVolume, Volume
    from pymatgen.core import Lattice

    kind, rot, m = geom.random_lattice(rng, lo=3.0, hi=8.0)
    small = unit['i'] % 4 == 0
    shape = tuple(int(x) for x in (rng.integers(2, 4, size=3) if small else rng.integers(2, 7, size=3)))
    channels = None
    if unit['i'] % 7 == 3:
        # two mutually disconnected networks that both percolate along one axis: a narrow cheap channel (one
        # line of voxels) and a wide, more expensive slab, separated by blocked voxels
        ax = int(rng.integers(3))
        o1, o2 = [a for a in range(3) if a != ax]
        shp = [0, 0, 0]
        shp[ax], shp[o1], shp[o2] = int(rng.integers(2, 6)), int(rng.integers(4, 7)), int(rng.integers(2, 5))
        shape = tuple(shp)
        Fd0 = np.full(shape, 1e300)
        sl_n = [slice(None)] * 3
        sl_n[o1], sl_n[o2] = 0, 0
        Fd0[tuple(sl_n)] = rng.uniform(0.05, 0.3, size=shape[ax])
        sl_w = [slice(None)] * 3
        sl_w[o1] = slice(2, shape[o1] - 1)
        Fd0[tuple(sl_w)] = rng.uniform(0.4, 1.0, size=Fd0[tuple(sl_w)].shape)
        zero_channel = unit['i'] % 21 == 3
        if zero_channel:
            # the narrow channel lies exactly at the energy minimum 0.0 (grids shifted so that min(F) = 0): its
            # percolating path costs exactly 0.0
            Fd0[tuple(sl_n)] = 0.0
            ctx.count('grids_with_a_zero_energy_percolating_channel')
        elif rng.integers(2):
            Fd0[tuple(sl_n)], Fd0[tuple(sl_w)] = Fd0[tuple(sl_n)] + 2.0, Fd0[tuple(sl_w)]  # the narrow channel is the expensive one
        pn = [0, 0, 0]
        pn[ax] = int(rng.integers(shape[ax]))
        pw = [0, 0, 0]
        pw[ax], pw[o1], pw[o2] = int(rng.integers(shape[ax])), 2, int(rng.integers(shape[o2]))
        pk_list = [pn, pw] if rng.integers(3) else [pn]
        if shape[o1] >= 5 and rng.integers(2):
            # an isolated admissible pocket (one voxel surrounded by blocked ones, cannot percolate), listed first
            pocket = [0, 0, 0]
            pocket[ax], pocket[o1], pocket[o2] = int(rng.integers(shape[ax])), shape[o1] - 1, 0
            nb_free = False
            for d_ in (-1, 0, 1):
                for e_ in (-1, 0, 1):
                    for g_ in (-1, 0, 1):
                        q = [(pocket[0] + d_) % shape[0], (pocket[1] + e_) % shape[1], (pocket[2] + g_) % shape[2]]
                        if (d_, e_, g_) != (0, 0, 0) and Fd0[tuple(q)] < 1e7 and q != pocket:
                            nb_free = True
            if not nb_free:
                Fd0[tuple(pocket)] = 0.01
                pk_list = [pocket] + pk_list
                ctx.count('peak_lists_starting_with_an_isolated_pocket')
        channels = ('xyz'[ax], pk_list)
        F = FreeEnergyVolume(data=Fd0, lattice=Lattice(m))
        src = 'channels'
        ctx.count('grids_with_two_disconnected_percolating_networks')
    elif rng.uniform() < 0.5:
        dens = np.floor(np.exp(rng.uniform(0, 6, size=shape)))
        temp = float(rng.uniform(100, 1500))
        dens = np.where(rng.uniform(size=shape) < rng.choice([0.0, 0.2, 0.4]), 0, dens)
        if not dens.any():
            dens[0, 0, 0] = 1
        F = Volume(data=dens, lattice=Lattice(m)).get_free_energy(temperature=temp)
        src = 'density'
    else:
        Fd0 = rng.uniform(0, rng.choice([0.5, 3.0, 12.0, 40.0]), size=shape)
        # blocked voxels: far above the threshold, EXACTLY at the threshold (1e7: not below it, so blocked), or
        # one ulp above it; a few admissible voxels sit one ulp below the threshold
        if rng.uniform() < 0.25:
            # integer-valued energies with exact zeros (ties between paths, zero-cost steps and zero-cost paths)
            Fd0 = np.floor(Fd0 * rng.choice([1.0, 4.0]) / max(float(Fd0.max()), 1e-9) * 1.0)
            ctx.count('integer_valued_energy_grids_with_exact_zeros')
        wall = float(rng.choice([1e300, 1e300, 1e7, float(np.nextafter(1e7, np.inf)), np.inf, np.nan]))
        Fd0 = np.where(rng.uniform(size=shape) < rng.choice([0.0, 0.2, 0.4]), wall, Fd0)
        if rng.uniform() < 0.25:
            Fd0 = np.where(rng.uniform(size=shape) < 0.1, float(np.nextafter(1e7, 0)), Fd0)
            ctx.count('grids_with_voxels_one_ulp_below_the_threshold')
        ctx.count('grids_with_blocked_voxels_exactly_at_the_threshold', wall == 1e7 and bool(np.any(Fd0 == 1e7)))
        if rng.integers(3) == 0:
            Fd0 = np.asfortranarray(Fd0)
            ctx.count('fortran_ordered_energy_grids')
        F = FreeEnergyVolume(data=Fd0, lattice=Lattice(m))
        src = 'random'
    Fd = np.asarray(F.data)
    diagonal = bool(rng.uniform() < 0.7)
    thr = 1e7
    allowed = {tuple(int(x) for x in ix) for ix in np.argwhere((Fd >= 0) & (Fd < thr))}
    if len(allowed) < 2:
        ctx.case(None, False)
        return
    nb_full = models.grid_neighbours(shape, models.ALL26 if diagonal else models.FACE_MOVES)
    nb_gem = models.grid_neighbours(shape, models.GEMDAT22 if diagonal else models.FACE_MOVES)
    what0 = f'grid {shape} ({src}) blocked={Fd.size - len(allowed)} diagonal={diagonal}'
    wit0 = {'F': Fd, 'diagonal': diagonal}
    # both neighbourhood modes are requested from the SAME volume object, in random order, and an
    # on-the-fly path (default graph) may come first: nothing may leak from one request into the other
    first_other = bool(rng.integers(2))
    nb6 = models.grid_neighbours(shape, models.FACE_MOVES)
    nb26 = models.grid_neighbours(shape, models.ALL26)
    if rng.integers(2):
        try:
            _ = F.optimal_path(start=sorted(allowed)[0], stop=sorted(allowed)[-1])
        except Exception:  # noqa: BLE001
            pass
    if first_other:
        G_other = F.free_energy_graph(max_energy_threshold=thr, diagonal=not diagonal)
    G = F.free_energy_graph(max_energy_threshold=thr, diagonal=diagonal)
    if not first_other:
        G_other = F.free_energy_graph(max_energy_threshold=thr, diagonal=not diagonal)
    ctx.check(set(G.nodes) == allowed, f'{what0}: graph nodes differ from the voxels below the threshold', wit0)
    # the module-level function on the bare array must build the same graph as the method
    import gemdat.path as gp

    G_fn = gp.free_energy_graph(np.array(Fd), max_energy_threshold=thr, diagonal=diagonal)
    ctx.check(set(G_fn.nodes) == set(G.nodes) and {frozenset(e) for e in G_fn.edges} == {frozenset(e) for e in G.edges}, f'{what0}: path.free_energy_graph(ndarray) and FreeEnergyVolume.free_energy_graph() build different graphs', wit0)
    for Gx, dg in ((G, diagonal), (G_other, not diagonal)):
        E = {frozenset((tuple(int(x) for x in u), tuple(int(x) for x in v))) for u, v in Gx.edges if tuple(u) != tuple(v)}
        face = {frozenset((u, v)) for u in allowed for v in nb6[u] if v in allowed}
        full = {frozenset((u, v)) for u in allowed for v in nb26[u] if v in allowed}
        if dg:
            ctx.check(face <= E <= full, f'{what0}: graph(diagonal=True) has {len(E - full)} edges between non-neighbouring voxels and lacks {len(face - E)} face edges', wit0)
        else:
            ctx.check(E == face, f'{what0}: graph(diagonal=False) has {len(E - face)} non-face edges (e.g. {sorted(map(sorted, E - face))[:1]}) and lacks {len(face - E)} face edges', wit0)
        for u, v, dat in list(Gx.edges(data=True))[:: max(1, Gx.number_of_edges() // 12)]:
            w = 0.5 * (Fd[tuple(u)] + Fd[tuple(v)])
            we = min(math.exp(w) if w < 700 else float('inf'), thr)
            ctx.check(abs(dat['weight'] - w) <= 1e-12 * max(1, abs(w)) and abs(dat['weight_exp'] - we) <= 1e-9 * max(1, abs(we)), f'{what0}: edge {u}-{v} has weight {dat["weight"]!r} / weight_exp {dat["weight_exp"]!r}, expected {w!r} / {we!r}', wit0)
    nodes = sorted(allowed)
    if len(nodes) <= 24:
        pairs = [(a, b) for a in nodes for b in nodes if a != b]
        plan = [('dijkstra', p) for p in pairs] + [(mth, pairs[int(rng.integers(len(pairs)))]) for mth in METHODS for _ in range(3)]
        ctx.count('grids_with_all_pairs')
    else:
        plan = []
        for mth in METHODS:
            for _ in range(3):
                a, b = (nodes[int(i)] for i in rng.choice(len(nodes), size=2, replace=False))
                plan.append((mth, (a, b)))
    if rng.uniform() < 0.15:
        # a blocked / unreachable endpoint
        blocked = [tuple(int(x) for x in ix) for ix in np.argwhere(~((Fd >= 0) & (Fd < thr)))]
        if blocked:
            plan.append(('dijkstra', (nodes[0], blocked[int(rng.integers(len(blocked)))])))
    longest = 0
    n_paths = 0
    for method, (start, stop) in plan:
        what = f'{what0} {method} {start}->{stop}'
        wit = {**wit0, 'method': method, 'start': start, 'stop': stop}
        cost = edge_cost_fn(Fd, method, thr)
        try:
            if diagonal and rng.integers(2):
                # on the fly: the volume builds its default (diagonal) graph itself
                path = F.optimal_path(start=start, stop=stop, method=method)
            elif rng.integers(3) == 0:
                # module-level function (no grid dimensions attached to the result)
                path = gp.optimal_path(G, start=start, stop=stop, method=method)
                path.dims = F.dims
                ctx.count('via_path.optimal_path')
            else:
                path = F.optimal_path(F_graph=G, start=start, stop=stop, method=method)
        except (nx.NetworkXNoPath, nx.NodeNotFound) as exc:
            o = models.dijkstra(nb_gem, allowed, start, stop, cost)
            ctx.check(o == float('inf'), f'{what}: raised {type(exc).__name__} although a path of cost {o!r} exists', wit)
            ctx.count('unreachable_requests')
            continue
        n_paths += 1
        sites = [tuple(int(x) for x in s) for s in path.sites]
        longest = max(longest, len(sites))
        ctx.check(sites[0] == start and sites[-1] == stop and tuple(path.start_site) == start and tuple(path.stop_site) == stop, f'{what}: path runs {sites[0]} -> {sites[-1]}', wit)
        err = valid_steps(sites, shape, nb_full, allowed)
        ctx.check(err is None, f'{what}: {err}', {**wit, 'sites': sites})
        en = [float(e) for e in path.energy]
        ctx.check(len(en) == len(sites) and all(e == Fd[s] for e, s in zip(en, sites)) and abs(path.total_energy - sum(Fd[s] for s in sites)) <= 1e-9 * max(1, abs(sum(en))), f'{what}: reported energies are not the free energies of the path voxels', {**wit, 'sites': sites, 'energy': en})
        ws = path.wrapped_sites()
        fs = np.asarray(path.frac_sites())
        ctx.check([tuple(int(x) for x in s) for s in ws] == sites and bool(np.all((fs >= 0) & (fs < 1))) and np.allclose(fs, (np.array(sites) + 0.5) / np.array(shape)), f'{what}: wrapped / fractional coordinates of an in-grid path are wrong', {**wit, 'sites': sites})
        if err is not None:
            continue
        if method == 'minmax-energy':
            mx = max(Fd[s] for s in sites)
            b_full = models.bottleneck(nb_full, Fd, allowed, start, stop)
            b_gem = models.bottleneck(nb_gem, Fd, allowed, start, stop)
            ctx.decided()
            if mx <= b_full * (1 + EPS) + 1e-300:
                pass
            elif diagonal and mx <= b_gem * (1 + EPS) and b_gem > b_full:
                ctx.known_finding(K3, f'{what}: maximum {mx!r} = bottleneck over the 22 listed moves; {b_full!r} needs a missing corner diagonal')
            else:
                c = path_cost(sites, edge_cost_fn(Fd, 'dijkstra', thr))
                o = models.dijkstra(nb_gem, allowed, start, stop, edge_cost_fn(Fd, 'dijkstra', thr))
                if c <= o + EPS * max(1.0, abs(o)):
                    ctx.known_finding(K4, f'{what}: returned the sum-optimal path (cost {c!r}) whose maximum voxel energy {mx!r} exceeds the min-max optimum {b_gem!r}')
                else:
                    ctx.violation(f'{what}: path maximum {mx!r} exceeds the min-max optimum {b_gem!r} and the path is not even sum-optimal ({c!r} vs {o!r})', {**wit, 'sites': sites})
            continue
        c = path_cost(sites, cost)
        o_full = models.dijkstra(nb_full, allowed, start, stop, cost)
        o_gem = models.dijkstra(nb_gem, allowed, start, stop, cost) if diagonal else o_full
        judge_cost(ctx, what, {**wit, 'sites': sites}, method, c, o_full, o_gem, diagonal)
        ctx.count(f'method:{method}')
    # ---- the n best paths: every returned path is a valid path between the requested voxels, reports its own
    # energies, the first one is the optimum -------------------------
    if len(nodes) >= 3 and unit['i'] % 2 == 0:
        a_, b_ = (nodes[int(i_)] for i_ in rng.choice(len(nodes), size=2, replace=False))
        what = f'{what0} optimal_n_paths {a_}->{b_}'
        wit = {**wit0, 'start': a_, 'stop': b_}
        meth_n = str(rng.choice(['dijkstra', 'dijkstra', 'simple', 'dijkstra-exp', 'bellman-ford']))
        what += f' method={meth_n}'
        try:
            plist = F.optimal_n_paths(F_graph=G, start=a_, stop=b_, n_paths=int(rng.integers(2, 5)), min_diff=0.0, **({} if meth_n == 'dijkstra' and rng.integers(2) else {'method': meth_n}))  # any min_diff > 0 can make the library enumerate every simple path of the grid (its documented caveat); 0 accepts each distinct path
        except (nx.NetworkXNoPath, nx.NodeNotFound):
            plist = None
            o_ = models.dijkstra(nb_gem, allowed, a_, b_, edge_cost_fn(Fd, 'dijkstra', thr))
            ctx.check(o_ == float('inf'), f'{what}: raised although a path of cost {o_!r} exists', wit)
        if plist:
            seen_ = set()
            for pi_, pth in enumerate(plist):
                sites = [tuple(int(x) for x in s_) for s_ in pth.sites]
                ctx.check(sites[0] == a_ and sites[-1] == b_, f'{what}: path {pi_} runs {sites[0]} -> {sites[-1]}', wit)
                err = valid_steps(sites, shape, nb_full, allowed)
                ctx.check(err is None, f'{what}: path {pi_}: {err}', {**wit, 'sites': sites})
                en = [float(e) for e in pth.energy]
                ctx.check(len(en) == len(sites) and all(e == Fd[s_] for e, s_ in zip(en, sites)), f'{what}: path {pi_} does not report the free energies of its voxels', {**wit, 'sites': sites, 'energy': en})
                seen_.add(tuple(sites))
            s0 = [tuple(int(x) for x in s_) for s_ in plist[0].sites]
            if valid_steps(s0, shape, nb_full, allowed) is None:
                cst = edge_cost_fn(Fd, meth_n, thr)
                judge_cost(ctx, what + ' (first path)', {**wit, 'sites': s0}, meth_n, path_cost(s0, cst), models.dijkstra(nb_full, allowed, a_, b_, cst), models.dijkstra(nb_gem, allowed, a_, b_, cst) if diagonal else models.dijkstra(nb_full, allowed, a_, b_, cst), diagonal)
            ctx.count('n_best_path_lists_checked')
            ctx.count('paths_in_n_best_lists', len(plist))
            ctx.count('distinct_paths_in_n_best_lists', len(seen_))
    # ---- percolating paths ----------------------------------------------------------------------
    n_perc = 0
    for _ in range(2):
        percolate = ''.join(ax for ax in 'xyz' if rng.integers(2)) or str(rng.choice(['x', 'y', 'z']))
        n_peaks = int(rng.integers(1, 5))
        peaks = np.array([nodes[int(i)] for i in rng.choice(len(nodes), size=min(n_peaks, len(nodes)), replace=False)])
        if rng.uniform() < 0.25:
            # peaks that cannot start a percolating path (on a blocked voxel) are listed anywhere, also first
            blocked = [tuple(int(x) for x in ix) for ix in np.argwhere(~((Fd >= 0) & (Fd < thr)))]
            if blocked:
                peaks = np.vstack([peaks, blocked[int(rng.integers(len(blocked)))]])
                peaks = peaks[rng.permutation(len(peaks))]
                ctx.count('peak_lists_with_a_blocked_voxel')
        if channels is not None:
            percolate, peaks = channels[0], np.array(channels[1])
        what = f'{what0} percolate={percolate} peaks={peaks.tolist()}'
        wit = {**wit0, 'percolate': percolate, 'peaks': peaks}
        direction = np.array([ax in percolate for ax in 'xyz'], dtype=int)
        tshape = tuple(int(s * (1 + d)) for s, d in zip(shape, direction))
        Ft = np.tile(Fd, tuple(1 + direction))
        t_allowed = {tuple(int(x) for x in ix) for ix in np.argwhere((Ft >= 0) & (Ft < thr))}
        nbt_full = models.grid_neighbours(tshape, models.ALL26)
        nbt_gem = models.grid_neighbours(tshape, models.GEMDAT22)
        cost = edge_cost_fn(Ft, 'dijkstra', thr)
        best = {}
        for nbname, nbt in (('full', nbt_full), ('gem', nbt_gem)):
            vals = []
            for pk in peaks:
                st = tuple(int(x) for x in pk)
                sp = tuple(int(x) for x in (pk + np.array(shape) * direction))
                o = models.dijkstra(nbt, t_allowed, st, sp, cost)
                vals.append(o + (Ft[st] if o < float('inf') else 0.0))
            best[nbname] = min(vals)
        path = F.optimal_percolating_path(peaks=peaks, percolate=percolate)
        n_perc += 1
        if path is None:
            ctx.check(best['gem'] == float('inf'), f'{what}: no percolating path returned although one of total energy {best["gem"]!r} exists', wit)
            ctx.count('percolation_impossible')
            continue
        sites = [tuple(int(x) for x in s) for s in path.sites]
        longest = max(longest, len(sites))
        wit = {**wit, 'sites': sites}
        is_peak = any(sites[0] == tuple(int(x) for x in pk) for pk in peaks)
        ctx.check(is_peak and sites[-1] == tuple(int(a + s * d) for a, s, d in zip(sites[0], shape, direction)), f'{what}: path {sites[0]} -> {sites[-1]} does not connect a peak to its image one cell away along {percolate}', wit)
        ws = [tuple(int(x) for x in s) for s in path.wrapped_sites()]
        fs = np.asarray(path.frac_sites())
        inside = all(0 <= w[i] < shape[i] for w in ws for i in range(3)) and bool(np.all((fs >= 0) & (fs < 1)))
        ctx.check(inside, f'{what}: wrapped voxel / fractional coordinates leave the original grid {shape}: {[w for w in ws if not all(0 <= w[i] < shape[i] for i in range(3))][:3]}', wit)
        ctx.check(ws == [tuple(int(s[i] % shape[i]) for i in range(3)) for s in sites] and np.allclose(fs, (np.array(ws) + 0.5) / np.array(shape)), f'{what}: wrapped sites are not the path sites modulo the grid', wit)
        nb1 = models.grid_neighbours(shape, models.ALL26)
        if inside:
            err = valid_steps(ws, shape, nb1, allowed)
            ctx.check(err is None, f'{what}: (wrapped) {err}', wit)
        en = [float(e) for e in path.energy]
        ctx.check(len(en) == len(sites) and all(e == Ft[s] for e, s in zip(en, sites) if all(0 <= s[i] < tshape[i] for i in range(3))), f'{what}: reported energies are not the free energies of the path voxels', wit)
        tot = float(path.total_energy)
        ctx.decided()
        tol = EPS * max(1.0, abs(best['full']))
        if tot <= best['full'] + tol:
            pass
        elif tot <= best['gem'] + EPS * max(1.0, abs(best['gem'])) and best['gem'] > best['full'] + tol:
            ctx.known_finding(K3, f'{what}: percolating path total {tot!r} = optimum over the 22 listed moves, {best["full"]!r} possible with all 26')
        else:
            ctx.violation(f'{what}: percolating path has total energy {tot!r}; the cheapest over all peaks is {best["full"]!r} (22-move optimum {best["gem"]!r})', wit)
        ctx.count('percolating_paths_checked')
    ctx.count('paths_checked', n_paths)
    ctx.count('unequal_axes_grids', len(set(shape)) > 1)
    ctx.count('diagonal_false_grids', not diagonal)
    ctx.case(signature(Fd, diagonal, [(mth, a, b) for mth, (a, b) in plan[:40]]), longest >= 3 and Fd.size > len(allowed), sample={'grid': list(shape), 'source': src, 'blocked': Fd.size - len(allowed), 'diagonal': diagonal, 'requests': len(plan), 'percolations': n_perc, 'longest_path': longest})
