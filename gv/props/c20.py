"""C20 — memoised analysis results are transparent and never leak between objects.

History monitor: random interleavings of creating, querying (varying arguments), dropping and
garbage-collecting analysis objects built from DIFFERENT data; every cached return value is
compared with an uncached recomputation (method.__wrapped__), liveness is observed through
weakref + gc, address reuse through id() bookkeeping, and the underlying lru_cache statistics
(reached through the wrapper's closure) are reported as evidence.
"""
from __future__ import annotations

import gc
import warnings
import weakref
from collections import Counter

import numpy as np

from .. import gen, geom
from ..core import Skip, signature

ID = 'C20'
LEVEL = 'exploration'
RULE = (
    'cases: histories of 40-200 random steps over a pool of analysis objects (TrajectoryMetrics, Transitions, Jumps, '
    'Collective) built from 5 different site systems (metrics objects also on related trajectories - full, diffusing species only, a slice, a split part - which share whatever the library shares between a trajectory and its derivations; their reference is a twin on a trajectory rebuilt from the raw arrays): create / call a cached method with varying arguments '
    '(dimensions 1-3, z_ion 1-3, n_parts, max_dist) / copy a live object (copy, deepcopy, pickle) and point the copy at other data / drop + liveness check / drop-and-recreate at the same address / '
    'explicit gc.collect; schedule dimension = gc disabled, gc threshold (1,1,1) or default; every tenth history '
    'creates more live objects than the cache size (128) to force evictions.  Oracle: uncached recomputation via '
    'method.__wrapped__ on the same object + reference values of a pristine twin object rebuilt from the raw arrays (it shares no trajectory, metadata dict, site structure or Transitions with the pool).  '
    'Non-trivial = the history achieved at least one address reuse and one cache hit; distinct = the step sequence.'
)
RULE += ' Added in rounds 5-10: metrics objects on related trajectories with twins rebuilt from raw arrays; collective results checked against the loop model; copy / deepcopy / pickle of live objects pointed at other data; explicit falsy and negative arguments.'
RULE += ' Round 16: the eviction flood makes more than 128 live entries of ONE cached method (each method has its own table) and re-asks the objects around position 128.'
RULE += ' Round 14: float arguments that differ only in their last bits (2.0 + k ulp) are different arguments.'
ASSUMPTIONS = [
    'single-threaded (GEMDAT has no threads): "schedules" are garbage-collection / allocation schedules',
    'K6 (cached Collective keeps its Jumps alive) tolerated only for a Jumps on which collective() was called, when every non-frame referrer is the __dict__ of a Collective (or of the surviving Jumps for its Transitions)',
]
N_CASES = {'quick': 200, 'thorough': 4000}
BUDGET_S = {'quick': 230, 'thorough': 3600}
K6 = 'K6-cached-collective-pins-jumps'


def units(tier):
    return [{'k': 'hist', 'i': i} for i in range(N_CASES[tier])]


def lru_of(method):
    """The functools.lru_cache object behind a weak_lru_cache-decorated method (via its closure)."""
    fn = getattr(method, '__func__', method)
    if hasattr(fn, 'cache_info'):
        return fn
    for cell in getattr(fn, '__closure__', None) or ():
        try:
            obj = cell.cell_contents
        except ValueError:
            continue
        if hasattr(obj, 'cache_info'):
            return obj
    return None


def equal(a, b):
    import networkx as nx
    import pandas as pd

    if isinstance(a, Exception) or isinstance(b, Exception):
        return type(a) is type(b) and str(a) == str(b)
    if type(a).__name__ == 'Collective' and type(b).__name__ == 'Collective':
        return (
            a.n_solo_jumps == b.n_solo_jumps
            and a.n_coll_jumps == b.n_coll_jumps
            and a.coll_jumps == b.coll_jumps
            and a.max_steps == b.max_steps
            and a.max_dist == b.max_dist
            and a.jumps is b.jumps
        )
    if isinstance(a, pd.DataFrame):
        return isinstance(b, pd.DataFrame) and a.shape == b.shape and list(a.index) == list(b.index) and bool(np.allclose(a.to_numpy(dtype=float), b.to_numpy(dtype=float), rtol=1e-9, equal_nan=True))
    if isinstance(a, nx.Graph):
        if not (isinstance(b, nx.Graph) and dict(a.nodes(data=True)) == dict(b.nodes(data=True)) and sorted(a.edges) == sorted(b.edges)):
            return False
        return all(equal(float(a.edges[e]['e_act']), float(b.edges[e]['e_act'])) for e in a.edges)
    if isinstance(a, np.ndarray) or isinstance(b, np.ndarray):
        a, b = np.asarray(a), np.asarray(b)
        if a.shape != b.shape:
            return False
        if a.dtype.kind in 'fc' or b.dtype.kind in 'fc':
            # recomputation after an internal representation switch may differ in the last bits
            return bool(np.allclose(a, b, rtol=1e-9, atol=1e-12 * max(1.0, float(np.nanmax(np.abs(a))) if a.size else 1.0), equal_nan=True))
        return bool(np.array_equal(a, b))
    if isinstance(a, (tuple, list)):
        return isinstance(b, (tuple, list)) and len(a) == len(b) and all(equal(x, y) for x, y in zip(a, b))
    if isinstance(a, float) or isinstance(b, float):
        try:
            fa, fb = float(a), float(b)
            return fa == fb or (fa != fa and fb != fb) or abs(fa - fb) <= 1e-9 * max(abs(fa), abs(fb))
        except Exception:  # noqa: BLE001
            return False
    return a == b


def call_plan(kind, rng):
    """(method name, args, kwargs) for a random cached method of the given object kind."""
    if kind.startswith('jumps'):
        kind = 'jumps'
    if kind.startswith('metrics'):
        kind = 'metrics'
    if kind == 'metrics':
        opts = [
            ('speed', (), {}),
            ('particle_density', (), {}),
            ('mol_per_liter', (), {}),
            ('tracer_diffusivity', (), {'dimensions': int(rng.integers(1, 4))}),
            ('tracer_diffusivity_center_of_mass', (), {'dimensions': int(rng.integers(1, 4))}),
            ('haven_ratio', (), {'dimensions': int(rng.integers(1, 4))}),
            ('tracer_conductivity', (), {'z_ion': int(rng.integers(1, 4)), 'dimensions': int(rng.integers(1, 4))}),
            # anions: negative charge numbers (hash(-1) == hash(-2) in CPython)
            ('tracer_conductivity', (), {'z_ion': int(rng.choice([-1, -2, -3])), 'dimensions': int(rng.integers(1, 4))}),
            ('attempt_frequency', (), {}),
            ('vibration_amplitude', (), {}),
            ('amplitudes', (), {}),
        ]
    elif kind == 'transitions':
        opts = [('matrix', (), {}), ('states_next', (), {}), ('states_prev', (), {})]
    elif kind == 'jumps':
        opts = [
            ('matrix', (), {}),
            ('counter', (), {}),
            ('_counter', (), {}),
            ('jump_diffusivity', (int(rng.integers(1, 4)),), {}),
            ('jump_diffusivity', (), {'dimensions': int(rng.integers(1, 4))}),
            ('to_graph', (), {}),
            ('to_graph', (), {'max_e_act': float(rng.choice([0.02, 0.05, 0.1, 0.3]))}),
            ('to_graph', (), {'min_e_act': float(rng.choice([0.02, 0.05, 0.1]))}),
            ('to_graph', (float(rng.choice([0.01, 0.04])), float(rng.choice([0.06, 0.2]))), {}),
            ('rates', (), {'n_parts': int(rng.integers(1, 4))}),
            ('collective', (), {'max_dist': float(rng.choice([0.5, 1.0, 2.0, 3.5]))}),
            ('collective', (), {}),
            # explicit falsy arguments are arguments, not omissions
            ('collective', (), {'max_dist': [0, 0.0][int(rng.integers(2))]}),
            ('collective', ([0, 0.0][int(rng.integers(2))],), {}),
            ('to_graph', (), {'min_e_act': 0.0}),
            ('to_graph', (), {'min_e_act': float(rng.choice([-1.0, -2.0]))}),
            ('to_graph', (float(rng.choice([-1, -2])),), {}),
            ('to_graph', (), {'max_e_act': 0}),
            # arguments that differ only in the last few bits (2.0 and 2.0 + k ulp; a cut-off read from data and one
            # computed from it) are different arguments
            ('collective', (), {'max_dist': 2.0 * (1 + int(rng.integers(0, 6)) * 2.0**-50)}),
            ('collective', (), {'max_dist': 2.0 * (1 + int(rng.integers(0, 6)) * 2.0**-50)}),
            ('to_graph', (), {'max_e_act': 0.05 * (1 + int(rng.integers(0, 4)) * 2.0**-50)}),
        ]
    else:
        opts = [('site_pair_count_matrix', (), {}), ('site_pair_count_matrix_labels', (), {}), ('multiple_collective', (), {})]
    return opts[int(rng.integers(len(opts)))]


def _every_second(transitions, minimal_residence=0):
    from gemdat.jumps import _generic_transitions_to_jumps as conv

    return conv(transitions, minimal_residence=minimal_residence).iloc[::2].reset_index(drop=True)


class Template:
    def __init__(self, rng):
        for _ in range(30):
            try:
                sys_ = gen.make_site_system(rng, T=int(rng.integers(25, 60)), n_sites=int(rng.integers(3, 7)), n_atoms=int(rng.integers(1, 4)), inner_fraction=1.0, margin=0.04, p_move=0.4, n_labels=int(rng.integers(1, 3)))
                self.traj = sys_.trajectory()
                self.tr0 = sys_.transitions(traj=self.traj)
                self.tr0.jumps()
                break
            except (Skip, ValueError):
                continue
        else:
            raise Skip('no template with jumps')
        self.sys = sys_
        from gemdat.transitions import Transitions

        self.shared_tr = Transitions(trajectory=self.tr0.trajectory, diff_trajectory=self.tr0.diff_trajectory, sites=self.tr0.sites, events=self.tr0.events.copy(), states=self.tr0.states.copy(), inner_states=self.tr0.inner_states.copy())

    def derive(self, traj, kind):
        """Related trajectories (they share what the library shares between a trajectory and its derivations)."""
        if kind == 'metrics':
            return self.tr0.diff_trajectory if traj is self.traj else traj.filter(self.sys.floating)
        if kind == 'metrics_full':
            return traj
        if kind == 'metrics_slice':
            return traj[2 : len(traj) - 3]
        if kind == 'metrics_part':
            return traj.filter(self.sys.floating).split(2)[1]
        raise KeyError(kind)

    def pristine_metrics(self, kind):
        """The same analysis object on a trajectory rebuilt from the raw arrays (nothing shared with the pool)."""
        from gemdat.metrics import TrajectoryMetrics

        return TrajectoryMetrics(self.derive(self.sys.trajectory(), kind))

    def pristine(self, kind):
        """The same kind of analysis object rebuilt from the raw arrays: it shares no trajectory, site
        structure, metadata dict or Transitions object with anything in the pool."""
        from gemdat.jumps import Jumps

        if kind.startswith('metrics'):
            return self.pristine_metrics(kind)
        tr = self.sys.transitions(traj=self.sys.trajectory())
        if kind == 'transitions':
            return tr
        if kind == 'jumps_alt':
            return Jumps(tr, conversion_method=_every_second)
        return Jumps(tr)

    def make(self, kind):
        from gemdat.jumps import Jumps
        from gemdat.metrics import TrajectoryMetrics
        from gemdat.transitions import Transitions

        if kind.startswith('metrics'):
            return TrajectoryMetrics(self.derive(self.traj, kind))
        tr = Transitions(trajectory=self.tr0.trajectory, diff_trajectory=self.tr0.diff_trajectory, sites=self.tr0.sites, events=self.tr0.events.copy(), states=self.tr0.states.copy(), inner_states=self.tr0.inner_states.copy())
        if kind == 'transitions':
            return tr
        if kind == 'jumps_alt':
            # another Jumps object built on the SAME Transitions object as 'jumps_shared', with its own
            # conversion method (it reports only every second jump)
            return Jumps(self.shared_tr, conversion_method=_every_second)
        if kind == 'jumps_shared':
            return Jumps(self.shared_tr)
        return Jumps(tr)


def invoke(obj, name, args, kwargs, wrapped=False):
    meth = getattr(type(obj), name)
    try:
        if wrapped:
            return meth.__wrapped__(obj, *args, **kwargs)
        return meth(obj, *args, **kwargs)
    except Exception as exc:  # noqa: BLE001
        return exc


def survivors_explained_by_k6(obj, called_collective, surviving_jumps):
    """True iff every referrer of obj (other than frames / our own containers) is explained by K6:
    a Jumps may be held by Collective objects (attribute .jumps) that the collective() cache keeps;
    a Transitions may be held by such a surviving Jumps (attribute .transitions)."""
    kind = type(obj).__name__
    refs = [r for r in gc.get_referrers(obj) if type(r).__name__ not in ('frame', 'cell') and r is not surviving_jumps]
    if not refs:
        return False
    for r in refs:
        owners = [r]
        if isinstance(r, dict):
            owners = [o for o in gc.get_referrers(r) if getattr(o, '__dict__', None) is r]
            if not owners:
                return False
        for o in owners:
            tn = type(o).__name__
            if kind == 'Jumps' and called_collective and tn == 'Collective' and getattr(o, 'jumps', None) is obj:
                continue
            if kind == 'Transitions' and tn == 'Jumps' and any(o is s for s in surviving_jumps):
                continue
            return False
    return True


def setup(ctx):
    # everything that exists before the first history (imported modules: numpy, scipy, matplotlib, pymatgen ...)
    # is moved to the permanent generation, so that the many gc.collect() calls of the histories only walk
    # the objects the histories create
    import gemdat  # noqa: F401

    gc.collect()
    gc.freeze()


def teardown(ctx):
    gc.unfreeze()


def run_unit(unit, rng, ctx):
    from gemdat.jumps import Jumps
    from gemdat.metrics import TrajectoryMetrics
    from gemdat.transitions import Transitions

    with warnings.catch_warnings():
        warnings.simplefilter('ignore')
        templates = [Template(rng) for _ in range(5)]
        sched = str(rng.choice(['default', 'disabled', 'aggressive']))
        old_thr = gc.get_threshold()
        was_enabled = gc.isenabled()
        if sched == 'disabled':
            gc.disable()
        elif sched == 'aggressive':
            gc.set_threshold(1, 1, 1)
        lrus = {}
        for cls in (TrajectoryMetrics, Transitions, Jumps):
            for nm, val in vars(cls).items():
                l = lru_of(val) if callable(val) else None
                if l is not None:
                    lrus[f'{cls.__name__}.{nm}'] = l
        before = {k: l.cache_info() for k, l in lrus.items()}
        ctx.count('cached_methods_reachable', len(lrus))
        flood = unit['i'] % 10 == 0
        n_steps = int(rng.integers(40, 120 if ctx.tier == 'quick' else 200))
        pool = []  # entries: [obj, kind, template index, called_collective]
        surviving_jumps = []  # K6 survivors (kept so that their Transitions can be explained)
        hist = []
        reuses = 0
        def do_call(ent):
            obj, kind, k, _ = ent
            if kind.startswith('jumps') and rng.uniform() < 0.15:
                # a Collective obtained from a cached call is itself an object with cached methods
                coll = invoke(obj, 'collective', (), {})
                ent[3] = True
                if not isinstance(coll, Exception):
                    name, args, kwargs = call_plan('collective', rng)
                    v = invoke(coll, name, args, kwargs)
                    w = invoke(coll, name, args, kwargs, wrapped=True)
                    ctx.check(equal(v, w), f'cached Collective.{name}() differs from an uncached recomputation', {'history': hist[-12:]})
                    hist.append(f'call collective.{name}')
                return
            name, args, kwargs = call_plan(kind, rng)
            if name == 'collective':
                ent[3] = True
            v = invoke(obj, name, args, kwargs)
            w = invoke(obj, name, args, kwargs, wrapped=True)
            twin = templates[k].pristine(kind)
            r = invoke(twin, name, args, kwargs, wrapped=True)
            hist.append(f'call {kind}#{k}.{name}{args}{kwargs}')
            same_obj = equal(v, w)
            # Collective results hold a reference to their own Jumps: compare twins field-wise without identity
            if type(v).__name__ == 'Collective' and type(r).__name__ == 'Collective':
                same_twin = (v.n_solo_jumps, v.n_coll_jumps, v.coll_jumps, v.max_steps, v.max_dist) == (r.n_solo_jumps, r.n_coll_jumps, r.coll_jumps, r.max_steps, r.max_dist) and v.jumps is obj
            else:
                same_twin = equal(v, r)
            if type(v).__name__ == 'Collective' and not kwargs.get('max_dist', 1.0) <= 1e-6:
                # reference that shares no code, and therefore no process-wide state, with the library: the loop
                # model of "close in time and space" on this object's own jump table and this template's sites
                from . import c12

                rows_ = [tuple(int(x) for x in r_) for r_ in obj.data[c12.COLS].to_numpy()]
                dsite_ = geom.min_image(templates[k].sys.matrix, templates[k].sys.site_frac, templates[k].sys.site_frac)
                cut_ = float(v.max_dist)
                if np.min(np.abs(dsite_[np.triu_indices(len(dsite_), 1)] - cut_)) > 1e-6:
                    c12.check_collective(v, rows_, templates[k].sys, int(v.max_steps), cut_, ctx, f'cached {kind}#{k}.collective{kwargs} (checked against the loop model)', {'history': hist[-15:]})
                    ctx.count('collective_results_checked_against_the_loop_model')
            ctx.check(same_obj, f'cached {kind}.{name}{args}{kwargs} returned {str(v)[:80]!r}, an uncached recomputation on the same object gives {str(w)[:80]!r}', {'history': hist[-15:]})
            ctx.check(same_twin, f'cached {kind}.{name}{args}{kwargs} returned a value that belongs to other data: {str(v)[:80]!r} vs pristine twin {str(r)[:80]!r}', {'history': hist[-15:]})

        def do_drop(idx):
            """returns (weakref, address, kind, template, called_collective) with no strong reference left here"""
            obj, kind, k, called = pool.pop(idx)
            hist.append(f'drop {kind}#{k}')
            return weakref.ref(obj), id(obj), kind, k, called

        def judge_survivor(ref, kind, called, when):
            o = ref()
            if o is None:
                return
            if survivors_explained_by_k6(o, called, surviving_jumps):
                ctx.known_finding(K6, f'{kind} object still alive {when} and gc.collect(): held only through Collective.jumps of the cached collective() result')
                if kind.startswith('jumps'):
                    surviving_jumps.append(o)
            else:
                refs = [type(r).__name__ for r in gc.get_referrers(o) if type(r).__name__ != 'frame']
                ctx.violation(f'{kind} object is kept alive {when} (collective() called: {called}); referrers: {refs[:6]}', {'history': hist[-15:]})

        def do_recreate(kind, k, addr):
            k2 = (k + 1 + int(rng.integers(len(templates) - 1))) % len(templates)
            new = templates[k2].make(kind)
            hit = id(new) == addr
            name, args, kwargs = call_plan(kind, rng)
            v = invoke(new, name, args, kwargs)
            w = invoke(new, name, args, kwargs, wrapped=True)
            ctx.check(equal(v, w), f'object created{" at the address of a destroyed one" if hit else ""}: cached {kind}.{name} returned {str(v)[:80]!r}, uncached {str(w)[:80]!r}', {'history': hist[-15:]})
            pool.append([new, kind, k2, name == 'collective'])
            hist.append(f'recreate {kind}#{k2} reuse={hit}')
            return hit

        def do_copy(ent):
            """A copy (shallow, deep or through pickle) of a live, possibly already queried object is another
            object; it is then pointed at the data of another template, and must answer for that data."""
            import copy
            import pickle

            obj, kind, k, _ = ent
            how = str(rng.choice(['copy.copy', 'copy.deepcopy', 'pickle']))
            try:
                cp = copy.copy(obj) if how == 'copy.copy' else (copy.deepcopy(obj) if how == 'copy.deepcopy' else pickle.loads(pickle.dumps(obj)))
            except Exception as exc:  # noqa: BLE001  (third-party members that cannot be copied: not judged here)
                ctx.count(f'copy_not_possible:{how}:{type(exc).__name__}')
                return
            k2 = (k + 1 + int(rng.integers(len(templates) - 1))) % len(templates)
            src = templates[k2].make(kind)
            for attr, val in list(vars(src).items()):
                if not attr.startswith('_'):
                    setattr(cp, attr, val)
            del src
            pool.append([cp, kind, k2, False])
            hist.append(f'{how} of {kind}#{k} -> pointed at the data of #{k2}')
            ctx.count(f'copies_of_live_objects:{how}')
            do_call(pool[-1])

        def do_flood():
            # every cached method has its own table of 128 entries: the flood makes more than 128 live entries of ONE
            # method (140 metrics objects asked for particle_density, 132 transitions objects asked for states_next),
            # then asks the earliest, the latest and the ones around position 128 again
            refs_ = []
            for kind_f, nm, n_f in (('metrics', 'particle_density', 140), ('transitions', 'states_next', 132)):
                objs = [templates[i % 5].make(kind_f) for i in range(n_f)]
                vals = [invoke(o, nm, (), {}) for o in objs]
                for i in (0, 1, 2, 3, 4, 11, 12, n_f - 1, n_f - 2, 127, 128, 129):
                    v = invoke(objs[i], nm, (), {})
                    ctx.check(equal(v, invoke(objs[i], nm, (), {}, wrapped=True)) and equal(v, vals[i]), f'after eviction: cached {nm} of object {i} of {n_f} live {kind_f} objects differs from recomputation', {'history': hist[-5:]})
                refs_ += [weakref.ref(o) for o in objs]
                del objs, vals
            return refs_

        try:
            for step in range(n_steps):
                u = rng.uniform()
                if not pool or u < 0.18:
                    kind = str(rng.choice(['metrics', 'metrics_full', 'metrics_slice', 'metrics_part', 'transitions', 'jumps', 'jumps_shared', 'jumps_alt']))
                    k = int(rng.integers(len(templates)))
                    pool.append([templates[k].make(kind), kind, k, False])
                    hist.append(f'create {kind}#{k}')
                elif u < 0.56:
                    do_call(pool[int(rng.integers(len(pool)))])
                elif u < 0.62:
                    do_copy(pool[int(rng.integers(len(pool)))])
                elif u < 0.82:
                    ref, addr, kind, k, called = do_drop(int(rng.integers(len(pool))))
                    if sched == 'disabled' or rng.integers(2):
                        gc.collect()
                    ctx.decided()
                    if ref() is not None:
                        gc.collect()
                    if ref() is not None:
                        judge_survivor(ref, kind, called, 'after its last user reference was dropped')
                    else:
                        # recreate at (hopefully) the same address from DIFFERENT data
                        reuses += do_recreate(kind, k, addr)
                else:
                    gc.collect()
                    hist.append('gc')
                if flood and step == n_steps // 2:
                    # more live objects than the cache size: force evictions, then re-query the oldest
                    refs = do_flood()
                    gc.collect()
                    alive = sum(r() is not None for r in refs)
                    ctx.check(alive == 0, f'{alive} of 272 flood objects stayed alive after being dropped (cache size 128)', {})
                    ctx.count('eviction_floods')
                    hist.append('flood 140 + 132 objects')
            # end of history: drop everything, nothing but K6 survivors may stay alive
            refs = [(weakref.ref(e[0]), e[1], e[3]) for e in pool]
            pool.clear()
            gc.collect()
            # Jumps first, so that surviving Jumps can explain their Transitions
            for r, kind, called in sorted(refs, key=lambda x: not x[1].startswith('jumps')):
                ctx.decided()
                judge_survivor(r, kind, called, 'at the end of the history after every reference was dropped')
        finally:
            gc.set_threshold(*old_thr)
            if was_enabled:
                gc.enable()
        after = {k: l.cache_info() for k, l in lrus.items()}
        hits = sum(after[k].hits - before[k].hits for k in lrus)
        misses = sum(after[k].misses - before[k].misses for k in lrus)
        ctx.count('lru_hits', hits)
        ctx.count('lru_misses', misses)
        ctx.count('address_reuses', reuses)
        ctx.count(f'gc_schedule:{sched}')
        ctx.count('steps', len(hist))
        ctx.count('max_cache_currsize', max(a.currsize for a in after.values()) if after else 0)
        surviving_jumps.clear()
    ctx.case(signature(hist), reuses > 0 and hits > 0, sample={'gc_schedule': sched, 'steps': len(hist), 'address_reuses': reuses, 'lru_hits': hits, 'lru_misses': misses, 'history_head': hist[:10]})
