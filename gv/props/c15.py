"""C15 — select / slice / split / extend and read-only queries never alter the data.

History checker: a random sequence of Trajectory API calls is executed on a pool of live
trajectories; a pure-numpy sequential model is updated per operation; after EVERY step EVERY live
object is probed (on a deep copy, so that the probe does not itself switch the internal
representation of the object under test) and compared with the model.
"""
from __future__ import annotations

import copy

import numpy as np

from .. import gen, geom, models
from ..core import signature
from ..monitor import Monitor

ID = 'C15'
LEVEL = 'exploration'
RULE = (
    'cases: histories of 10-40 random Trajectory API calls (positions / displacements mode switches, '
    'cumulative_displacements, distances, MSD, metrics, drift, to_volume, transitions_between_sites, '
    'center_of_mass, filter by str / list, [int], slices with negative start/stop and steps 1-3, split with and '
    'without equal_parts, extend) on a pool of up to 8 live trajectories (lattice zoo, 2-4 species incl. S/Si, '
    'hostile face-adjacent coordinates; every fifth history runs on a 1/16 coordinate grid with steps of exactly half a cell, where all arithmetic is exact and every route must pick the same image).  After every step every live object is probed via a deep copy and '
    'compared with a sequential numpy model.  Non-trivial = the history contains at least one derivation '
    '(filter/slice/split/extend) executed while the source was in displacement representation; distinct = the '
    'operation sequence (names + arguments).'
)
RULE += ' Added in rounds 8-10: filter arguments with repeated names; restart chunks repeating the last frame; derived quantities re-queried after extend(); shape analysis (with supercell) and the pair RDF among the read-only queries. Round 16: sampling intervals of 1.5 / 3 / 0.75 fs and an atomic-unit step. Round 13: extend() with a run sampled at another time step (x2, x0.5, x1.001, x10) must be refused and leave the object unchanged.'
ASSUMPTIONS = [
    'constant-cell trajectories only',
    'split without equal_parts is taken to tile the source without gaps; at most one trailing frame may stay unused (the implementation drops the last frame)',
    'the probe uses copy.deepcopy of the object and reads .positions of the copy (pickle/deepcopy are trusted)',
    'analysis queries may legitimately raise on degenerate data (e.g. no transition events); only their effect on the data is judged',
]
N_CASES = {'quick': 320, 'thorough': 50000}
BUDGET_S = {'quick': 220, 'thorough': 3600}

_mon = Monitor()


def units(tier):
    return [{'k': 'hist', 'i': i} for i in range(N_CASES[tier])]


def setup(ctx):
    from gemdat import Trajectory

    for name in ('filter', 'split', '__getitem__', 'extend', 'to_positions', 'to_displacements'):
        _mon.attach(Trajectory, name, label=f'Trajectory.{name}')


def teardown(ctx):
    _mon.flush_counts(ctx)
    _mon.detach_all()


class Live:
    def __init__(self, obj, P, names, m, dt, meta, origin):
        self.obj = obj
        self.P = P
        self.names = list(names)
        self.m = m
        self.dt = dt
        self.meta = meta
        self.origin = origin


def wrap01(X):
    P = np.mod(X, 1)
    P[P == 1] = 0
    return P


def probe(live: Live, ctx, step_desc, hist):
    o = copy.deepcopy(live.obj)
    p = np.asarray(o.positions)
    ok = p.shape == live.P.shape
    msg = None
    if not ok:
        msg = f'shape {p.shape} != model {live.P.shape}'
    elif p.size and not (p.min() >= 0 and p.max() < 1):
        msg = f'positions outside [0,1): min={p.min()!r} max={p.max()!r}'
    elif p.size and float(geom.circ_diff(p, live.P).max()) > 1e-9:
        t, a, c = np.unravel_index(np.argmax(geom.circ_diff(p, live.P)), p.shape)
        msg = f'positions[{t},{a},{c}]={p[t, a, c]!r} but the model says {live.P[t, a, c]!r}'
    elif [s.symbol for s in o.species] != live.names:
        msg = f'species {[s.symbol for s in o.species]} != model {live.names}'
    elif not np.allclose(np.asarray(o.get_lattice().matrix), live.m, rtol=0, atol=1e-12):
        msg = 'lattice changed'
    elif o.time_step != live.dt:
        msg = f'time_step {o.time_step!r} != {live.dt!r}'
    elif getattr(o, 'metadata', None) != live.meta:
        msg = f'metadata {getattr(o, "metadata", None)!r} != {live.meta!r}'
    ctx.decided()
    if msg:
        ctx.violation(f'after step {step_desc}: object "{live.origin}" no longer matches the sequential model: {msg}', {'history': hist, 'object': live.origin})
        return False
    return True


def rand_slice(rng, T):
    for _ in range(50):
        start = None if rng.uniform() < 0.25 else int(rng.integers(-T - 1, T + 1))
        stop = None if rng.uniform() < 0.25 else int(rng.integers(-T - 1, T + 2))
        step = None if rng.uniform() < 0.4 else int(rng.integers(1, 4))
        sl = slice(start, stop, step)
        if len(range(*sl.indices(T))) >= 1:
            return sl
    return slice(None)


def run_unit(unit, rng, ctx):
    kind, rot, m = geom.random_lattice(rng, lo=4.0, hi=9.0)
    T = int(rng.integers(4, 30)) if unit['i'] % 5 else int(rng.choice([16, 31, 50, 61, 62]))
    symbols = [str(x) for x in rng.choice(['Li', 'S', 'Si', 'P', 'Na'], size=int(rng.integers(2, 5)), replace=False)]
    names = [str(x) for x in rng.choice(symbols, size=int(rng.integers(2, 8)))]
    N = len(names)
    U = gen.random_walk(rng, T, N, max_step=0.2)
    if rng.uniform() < 0.5:
        # face-adjacent hostile values (0.5 is left out: a step of exactly half a cell has no defined
        # minimum image, and the derived quantities are compared with the model below)
        H = np.array([h for h in gen.HOSTILE if h != 0.5])
        sel = rng.uniform(size=U.shape) < 0.1
        U = np.where(sel, np.round(U) + H[rng.integers(len(H), size=U.shape)], U)
    dyadic = unit['i'] % 5 == 3
    if dyadic:
        # coordinates on a 1/16 grid, handed over wrapped, with steps of EXACTLY half a cell: all arithmetic is
        # exact, so whichever image the code picks for such a step it must pick the same one on every route
        # (the sequential model uses numpy's own rounding of the exact step)
        stepset = np.array([0, 1 / 16, -1 / 16, 1 / 8, -1 / 8, 1 / 4, -1 / 4, 0.5, -0.5])
        pst = np.array([4, 2, 2, 2, 2, 2, 2, 3, 3], dtype=float)
        U = np.cumsum(np.concatenate([rng.integers(0, 16, size=(1, N, 3)) / 16, rng.choice(stepset, p=pst / pst.sum(), size=(T - 1, N, 3))]), axis=0)
        ctx.count('dyadic_histories_with_exact_half_cell_steps')
        ctx.count('exact_half_cell_steps', int(np.sum(np.abs(np.diff(U, axis=0)) == 0.5)))
    # sampling intervals incl. values whose conversion to picoseconds and back is not exact (1.5 fs, 3 fs, 0.75 fs)
    dt = float([1e-15, 1e-15, 2e-15, 1.5e-15, 3e-15, 0.75e-15, 2.4188843265857e-17 * 20][int(rng.integers(7))])
    meta = {'temperature': 300.0 + unit['i'], 'note': 'x'}
    sp = gen.species_objects(names, rng=rng)
    X = U if (rng.integers(2) and not dyadic) else U - np.floor(U)
    root = gen.make_trajectory(m, sp, X, time_step=dt, metadata=dict(meta))
    pool = [Live(root, wrap01(X), names, m, dt, dict(meta), 'root')]
    hist = []
    n_steps = int(rng.integers(10, 41))
    deriv_in_disp_mode = 0
    read_ops = ['positions', 'displacements', 'displacements', 'cumulative', 'distances', 'msd', 'metrics', 'drift', 'to_volume', 'transitions', 'com', 'len', 'apply_drift', 'shape', 'rdf']
    deriv_ops = ['filter', 'filter', 'slice', 'slice', 'int', 'split', 'extend']
    ok = True
    for step in range(n_steps):
        live = pool[int(rng.integers(len(pool)))]
        o = live.obj
        op = str(rng.choice(read_ops if rng.uniform() < 0.55 else deriv_ops))
        Tn = len(live.P)
        disp_mode = bool(o.coords_are_displacement)
        desc = None
        try:
            # model of the derived quantities of this object: minimum-image steps of its frames
            steps = np.diff(live.P, axis=0, prepend=live.P[:1])
            steps = steps - np.round(steps)
            cum = np.cumsum(steps, axis=0)

            def agree(got, want, name):
                got = np.asarray(got)
                good = got.shape == want.shape and float(np.abs(got - want).max() if got.size else 0.0) <= 1e-9 * max(1.0, float(np.abs(want).max()) if want.size else 1.0)
                ctx.check(bool(good), f'after {hist}: {name} of "{live.origin}" (shape {got.shape}) is not what its current frames give (shape {want.shape})', {'history': hist + [name]})

            if op == 'positions':
                agree(geom.circ_diff(o.positions, live.P) if np.asarray(o.positions).shape == live.P.shape else o.positions, np.zeros_like(live.P) if np.asarray(o.positions).shape == live.P.shape else live.P, 'positions')
                desc = 'positions'
            elif op == 'displacements':
                agree(o.displacements, steps, 'displacements')
                desc = 'displacements'
            elif op == 'cumulative':
                agree(o.cumulative_displacements, cum, 'cumulative_displacements')
                desc = 'cumulative_displacements'
            elif op == 'distances':
                agree(o.distances_from_base_position(), np.linalg.norm(cum @ m, axis=2).T, 'distances_from_base_position()')
                desc = 'distances_from_base_position()'
            elif op == 'msd':
                agree(o.mean_squared_displacement(), models.msd_model(cum @ m), 'mean_squared_displacement()')
                desc = 'mean_squared_displacement()'
            elif op == 'len':
                ctx.check(len(o) == Tn and abs(o.total_time - Tn * dt) <= 1e-25 and np.allclose(np.asarray(o.get_lattice().matrix), m, atol=1e-12), f'after {hist}: len/total_time/get_lattice of "{live.origin}" are {len(o)}, {o.total_time!r}; expected {Tn}, {Tn * dt!r}', {'history': hist})
                _ = repr(o)
                desc = 'len/total_time/get_lattice/repr'
            elif op in ('metrics', 'drift', 'to_volume', 'transitions', 'com', 'apply_drift', 'shape', 'rdf'):
                desc = op
                try:
                    if op == 'metrics':
                        mm = o.metrics()
                        dgot = float(mm.tracer_diffusivity(dimensions=3))
                        dwant = float(np.mean(np.sum((cum[-1] @ m) ** 2, axis=1))) * 1e-20 / (6 * Tn * dt)
                        d_noise = (1e-6) ** 2 * 1e-20 / (6 * Tn * dt)  # a displacement of 1e-6 A
                        ctx.check(abs(dgot - dwant) <= 1e-9 * abs(dwant) + d_noise, f'after {hist}: tracer_diffusivity of "{live.origin}" is {dgot!r}, its current frames give {dwant!r}', {'history': hist})
                        _ = (mm.particle_density(), mm.vibration_amplitude())
                    elif op == 'drift':
                        _ = o.drift(fixed_species=live.names[0])
                    elif op == 'apply_drift':
                        _ = o.apply_drift_correction(floating_species=live.names[0]) if len(set(live.names)) > 1 else o.apply_drift_correction()
                    elif op == 'to_volume':
                        _ = o.to_volume(resolution=float(np.linalg.norm(m, axis=1).min() / int(rng.integers(2, 6))))
                    elif op == 'com':
                        _ = o.center_of_mass()
                    elif op == 'shape':
                        # shape analysis around one site, the trajectory treated as an integer supercell of a cell
                        from gemdat.shape import ShapeAnalyzer
                        from pymatgen.core import Lattice, PeriodicSite
                        from pymatgen.symmetry.groups import SpaceGroup

                        sc_ = tuple(int(x) for x in rng.integers(1, 3, size=3))
                        lat_ = Lattice(m / np.array(sc_)[:, None])
                        an_ = ShapeAnalyzer(sites=[PeriodicSite(live.names[0], rng.uniform(0, 1, size=3), lat_, label='s0')], lattice=lat_, spacegroup=SpaceGroup('P1'))
                        _ = an_.analyze_trajectory(o, supercell=(None if sc_ == (1, 1, 1) else sc_), radius=float(0.3 * min(lat_.abc)))
                    elif op == 'rdf':
                        _ = o.radial_distribution_between_species(specie_1=live.names[0], specie_2=live.names[-1], max_dist=3.0, resolution=0.5) if hasattr(o, 'radial_distribution_between_species') else None
                    else:
                        from pymatgen.core import Structure

                        st = Structure(lattice=o.get_lattice(), species=[live.names[0]] * 3, coords=rng.uniform(0, 1, size=(3, 3)))
                        _ = o.transitions_between_sites(sites=st, floating_specie=live.names[0], site_radius=float(rng.uniform(0.5, 1.5)))
                except AssertionError:
                    raise
                except Exception as exc:  # noqa: BLE001  (degenerate data; only the effect on the data is judged)
                    ctx.count(f'query_raised:{op}:{type(exc).__name__}')
            elif op == 'filter':
                present = list(dict.fromkeys(live.names))
                k = int(rng.integers(1, len(present) + 1))
                chosen = [str(x) for x in rng.choice(present, size=k, replace=False)]
                form = int(rng.integers(8))
                # forms 6 / 7: a collection naming species more than once (per-atom lists, numpy arrays of names)
                rep_ = [c_ for c_ in chosen for _ in range(int(rng.integers(1, 4)))]
                arg = chosen[0] if (len(chosen) == 1 and form < 2) else [tuple(chosen), list(chosen), set(chosen), frozenset(chosen), dict.fromkeys(chosen).keys(), tuple(chosen), [rep_[i_] for i_ in rng.permutation(len(rep_))], np.array(rep_)][form]
                ctx.count(f'filter_argument:{type(arg).__name__}' + ('(repeated names)' if form >= 6 else ''))
                new = o.filter(arg)
                mask = np.array([n in chosen for n in live.names])
                pool.append(Live(new, live.P[:, mask], [n for n in live.names if n in chosen], m, dt, live.meta, f'{live.origin}.filter({arg!r})'))
                desc = f'filter({arg!r})'
                deriv_in_disp_mode += disp_mode
            elif op == 'slice':
                sl = rand_slice(rng, Tn)
                new = o[sl]
                pool.append(Live(new, live.P[sl], live.names, m, dt, live.meta, f'{live.origin}[{sl.start}:{sl.stop}:{sl.step}]'))
                desc = f'[{sl.start}:{sl.stop}:{sl.step}]'
                deriv_in_disp_mode += disp_mode
            elif op == 'int':
                i = int(rng.integers(0, Tn))
                st = o[i]
                fc = np.asarray(st.frac_coords)
                good = fc.shape == live.P[i].shape and float(geom.circ_diff(fc, live.P[i]).max()) <= 1e-9 and [s.symbol for s in st.species] == live.names
                desc = f'[{i}]'
                ctx.check(bool(good), f'after {hist + [desc]}: frame {i} of "{live.origin}" differs from the model', {'history': hist + [desc]})
                deriv_in_disp_mode += disp_mode
            elif op == 'split':
                if Tn < 3:
                    continue
                n = int(rng.integers(1, min(5 if rng.integers(2) else 24, Tn - 1) + 1))
                eq = bool(rng.integers(2))
                parts = o.split(n, equal_parts=eq)
                desc = f'split({n}, equal_parts={eq})'
                good = len(parts) == n
                pos_end = 0
                lens = []
                for part in parts:
                    pp = np.asarray(copy.deepcopy(part).positions)
                    L = len(pp)
                    lens.append(L)
                    found = None
                    for s0 in range(pos_end, Tn - L + 1):
                        if L and float(geom.circ_diff(pp, live.P[s0 : s0 + L]).max()) <= 1e-9:
                            found = s0
                            break
                    if found is None or L == 0:
                        good = False
                        break
                    pool.append(Live(part, live.P[found : found + L], live.names, m, dt, live.meta, f'{live.origin}.split({n},{eq})[{len(lens) - 1}]'))
                    pos_end = found + L
                if eq and len(set(lens)) > 1:
                    good = False
                if good and not eq:
                    # without trimming the parts tile the source: no gaps, at most one trailing frame unused
                    ctx.check(sum(lens) >= Tn - 1 and pos_end >= Tn - 1, f'after {hist + [desc]}: split parts of "{live.origin}" cover only {sum(lens)} of {Tn} frames (lengths {lens})', {'history': hist + [desc]})
                ctx.check(bool(good), f'after {hist + [desc]}: split parts are not ordered, non-overlapping frame ranges of "{live.origin}" (lengths {lens}, source {Tn})', {'history': hist + [desc]})
                deriv_in_disp_mode += disp_mode
            elif op == 'extend':
                cands = [x for x in pool if x is not live and x.names == live.names]
                if not cands:
                    continue
                other = cands[int(rng.integers(len(cands)))]
                if rng.uniform() < 0.3:
                    # a restart chunk: its first frame repeats the current last configuration (possibly in another
                    # periodic image), followed by new frames
                    nf_ = int(rng.integers(1, 5))
                    Pn = np.concatenate([live.P[-1:], live.P[-1:] + np.cumsum(rng.uniform(-0.1, 0.1, size=(nf_ - 1, live.P.shape[1], 3)), axis=0)]) if nf_ > 1 else live.P[-1:].copy()
                    Pn = Pn - np.floor(Pn)
                    other_meta = dict(live.meta) if rng.integers(2) else {'temperature': 9999.0, 'aux': 'restart'}  # the appended run may carry other metadata; the trajectory it is appended to keeps its own
                    other = Live(gen.make_trajectory(m, list(o.species), Pn + rng.integers(-1, 2, size=(1, Pn.shape[1], 3)), time_step=dt, metadata=other_meta), wrap01(Pn), live.names, m, dt, other_meta, f'restart chunk of {nf_} frames')
                    ctx.count('extend_with_a_chunk_repeating_the_last_frame')
                if rng.uniform() < 0.15:
                    # a run sampled at ANOTHER time step cannot become frames of this trajectory (one time step per
                    # trajectory): the request is refused loudly and the object is left as it was (the probe after this
                    # step compares it with its unchanged frames); appending silently is a violation
                    f_dt = float(rng.choice([2.0, 0.5, 1.001, 10.0]))
                    alien = gen.make_trajectory(m, list(o.species), other.P[: max(1, min(3, len(other.P)))].copy(), time_step=dt * f_dt, metadata=dict(other.meta))
                    n_before = len(o)
                    try:
                        o.extend(alien)
                        refused = False
                    except Exception:  # noqa: BLE001
                        refused = True
                    ctx.check(refused and len(o) == n_before and o.time_step == dt, f'after {hist}: extend() of "{live.origin}" (time step {dt!r}) with a run sampled at {dt * f_dt!r} s was not refused: the object now has {len(o)} frames (before {n_before}) and time step {o.time_step!r}', {'history': hist})
                    ctx.count('extend_with_another_time_step_refused', refused)
                    if not refused:
                        ok = False
                        break
                    hist.append(f'{live.origin}: extend(<run with time step x{f_dt}>) refused')
                    continue
                requery = bool(rng.integers(2))
                if requery:
                    # derived quantities are asked before the object grows ...
                    _ = (o.mean_squared_displacement(), o.distances_from_base_position(), o.cumulative_displacements)
                o.extend(other.obj)
                live.P = np.concatenate([live.P, other.P], axis=0)
                desc = f'extend(<{other.origin}>)'
                if requery:
                    # ... and again afterwards: they describe the frames the object holds now
                    steps2 = np.diff(live.P, axis=0, prepend=live.P[:1])
                    steps2 = steps2 - np.round(steps2)
                    cum2 = np.cumsum(steps2, axis=0)
                    hist_x = hist + [f'{live.origin}: msd/distances/cumulative, {desc}']
                    for nm_, got_, want_ in (('mean_squared_displacement()', o.mean_squared_displacement(), models.msd_model(cum2 @ m)), ('distances_from_base_position()', o.distances_from_base_position(), np.linalg.norm(cum2 @ m, axis=2).T), ('cumulative_displacements', o.cumulative_displacements, cum2)):
                        got_ = np.asarray(got_)
                        ctx.check(got_.shape == want_.shape and float(np.abs(got_ - want_).max() if got_.size else 0.0) <= 1e-9 * max(1.0, float(np.abs(want_).max()) if want_.size else 1.0), f'after {hist_x}: {nm_} of "{live.origin}" (shape {got_.shape}) is not what its frames give after it was extended (shape {want_.shape})', {'history': hist_x})
                    ctx.count('requery_of_derived_quantities_after_extend')
                deriv_in_disp_mode += disp_mode
        except Exception as exc:  # noqa: BLE001
            import traceback

            ctx.check(False, f'after {hist}: operation {op} on "{live.origin}" raised {type(exc).__name__}: {exc}', {'history': hist, 'traceback': traceback.format_exc()[-1500:]})
            ok = False
            break
        if desc is None:
            continue
        hist.append(f'{live.origin}: {desc}' + (' [src in displacement mode]' if disp_mode else ''))
        ctx.count(f'op:{op}')
        ctx.count('ops_on_object_in_displacement_mode', disp_mode)
        for lv in pool:
            if not probe(lv, ctx, hist[-1], hist):
                ok = False
        if not ok:
            break
        while len(pool) > 8:
            del pool[int(rng.integers(1, len(pool)))]
    ctx.count('steps_executed', len(hist))
    ctx.count(f'lattice:{kind}')
    ctx.case(signature(hist), deriv_in_disp_mode > 0, sample={'lattice': kind, 'T': T, 'species': names, 'history': hist[:12]})
