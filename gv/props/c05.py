"""C05 — jump / occupancy bookkeeping conserves counts; jump diffusivity matches its formula."""
from __future__ import annotations

import warnings
from collections import Counter

import numpy as np

from .. import gen, geom, models
from ..core import signature
from ..monitor import Monitor

ID = 'C05'
LEVEL = 'exploration'
RULE = (
    'cases: margin-controlled pipeline systems (lattice zoo, 2-8 sites, 1-3 labels assigned non-contiguously, 1-4 '
    'diffusing atoms, never two atoms on one site, hop histories with excursions to no-site, direct hops and '
    'returns, inner fraction 1 / 0.5) run through transitions_between_sites -> jumps.  State-based oracle: every '
    'bookkeeping quantity is recomputed by explicit loops from the event table / jump table / state array the '
    'object holds at call time, distances from the image enumeration.  Non-trivial = at least two jumps, at least '
    'one event into or out of no-site and more than one label; distinct = SHA-1 of (states, sites, labels).'
)
RULE += ' Round 16: a third of the objects are rebuilt around their event table with the named columns permuted; matrix / counter are re-derived on that object.'
RULE += ' Round 14: to_graph thresholds equal to the e_act of an existing edge (inclusive window).'
RULE += ' Round 12: under default settings the jump matrix is also compared with the moves counted in the state history (C04 model), including atoms that only ever hop directly from site to site (p_direct 0.9 / 1.0 systems).'
RULE += " Added in rounds 5-10: parts of Jumps.split recounted with the parent's minimal_residence; number of parts checked; sites holding more than one atom on average (loud refusal accepted, other numbers not)."
ASSUMPTIONS = [
    'the event table and jump table themselves are judged by C03 / C04; here only aggregation',
    'rates(): the per-part jump counters come from the real Jumps.split (its conservation laws are C19); each part is recounted from its own transitions with the parent\'s minimal_residence through the real Transitions.jumps',
    'attempt frequency entering the activation energies is read from the real TrajectoryMetrics',
    'K2 (Transitions.matrix folds no-site events into the last row/column) is tolerated only when every deviating cell is explained by exactly that index wrap',
    'a site that holds more than one atom on average (occupancy > 1) cannot be represented by the library (pymatgen raises "Species occupancies sum to more than 1"): that loud refusal is accepted; silently reporting other numbers is not',
]
N_CASES = {'quick': 320, 'thorough': 50000}
BUDGET_S = {'quick': 220, 'thorough': 3600}
K2 = 'K2-transitions-matrix-folds-nosite'
ANG = 1e-10
KB = 1.380649e-23
QE = 1.602176634e-19

JCOLS = ['atom index', 'start site', 'destination site', 'start time', 'stop time']
_mon = Monitor()


def units(tier):
    return [{'k': 'rand', 'i': i} for i in range(N_CASES[tier])]


def setup(ctx):
    from .. import retain as _rt

    from gemdat.jumps import Jumps
    from gemdat.transitions import Transitions

    for nm in ('matrix', 'occupancy', 'occupancy_by_site_type', 'atom_locations'):
        _mon.attach(Transitions, nm, label=f'Transitions.{nm}', retain=_rt.auto)
    for nm in ('matrix', '_counter', 'counter', 'jump_diffusivity', 'to_graph', 'rates'):
        _mon.attach(Jumps, nm, label=f'Jumps.{nm}', retain=_rt.auto)


def teardown(ctx):
    _mon.flush_counts(ctx)
    _mon.detach_all()


def check_transitions_matrix(tr, ctx, what, wit):
    n = tr.n_sites
    ev = tr.events[['start site', 'destination site']].to_numpy().astype(int)
    pairs = Counter((int(a), int(b)) for a, b in ev)
    want = np.zeros((n, n), dtype=int)
    for (a, b), c in pairs.items():
        if a >= 0 and b >= 0:
            want[a, b] = c
    got = np.asarray(tr.matrix())
    ctx.decided()
    if got.shape != want.shape:
        ctx.violation(f'{what}: Transitions.matrix() shape {got.shape} != {(n, n)}', wit)
        return
    diff = np.argwhere(got != want)
    if not len(diff):
        return
    unexplained = []
    for r, c in diff:
        rs = {r, -1} if r == n - 1 else {r}
        cs = {c, -1} if c == n - 1 else {c}
        cands = {pairs.get((a, b), 0) for a in rs for b in cs if (a, b) != (r, c) and (a < 0 or b < 0)}
        if not ((r == n - 1 or c == n - 1) and got[r, c] in cands and got[r, c] != 0):
            unexplained.append((int(r), int(c), int(got[r, c]), int(want[r, c])))
    if unexplained:
        ctx.violation(f'{what}: Transitions.matrix() cells (row, col, got, number of recorded moves) {unexplained[:4]} are wrong', {**wit, 'got': got, 'want': want})
    else:
        ctx.known_finding(K2, f'{what}: {len(diff)} cell(s) in the last row/column hold the count of no-site events, e.g. cell {tuple(int(x) for x in diff[0])} = {int(got[tuple(diff[0])])} (true {int(want[tuple(diff[0])])})')
        ctx.count('K2_cells', len(diff))


def check_occupancy(tr, sys_, ctx, what, wit):
    states = np.asarray(tr.states)
    T = len(states)
    n = tr.n_sites
    occ = np.array([np.sum(states == i) / T for i in range(n)])
    if occ.max() > 1 + 1e-12:
        # several atoms share a site most of the time: its occupancy exceeds 1, which the library refuses loudly
        # (pymatgen cannot hold such a site); it must not silently report something else
        try:
            st = tr.occupancy()
        except ValueError as exc:
            ctx.decided()
            if 'more than 1' in str(exc):
                ctx.count('occupancy_above_one_refused_loudly')
                return occ
            raise
        got = np.array([site.species.num_atoms for site in st])
        ctx.check(len(got) == n and np.allclose(got, occ, rtol=1e-12, atol=1e-15), f'{what}: a site holds more than one atom on average (occupancy {occ.max():.3f}); occupancy() neither refused nor reported the atom-frame fractions: {got.tolist()} vs {occ.tolist()}', {**wit, 'got': got, 'want': occ})
        return occ
    st = tr.occupancy()
    got = np.array([site.species.num_atoms for site in st])
    ctx.check(len(got) == n and np.allclose(got, occ, rtol=1e-12, atol=1e-15), f'{what}: occupancy() != fraction of frames each site holds an atom', {**wit, 'got': got, 'want': occ})
    ctx.check(list(st.labels) == list(sys_.labels) and float(geom.circ_diff(st.frac_coords, sys_.site_frac).max()) < 1e-12, f'{what}: occupancy() changed labels or coordinates of the sites', wit)
    frac_at_sites = np.sum(states >= 0) / states.size
    ctx.check(abs(got.sum() - frac_at_sites * states.shape[1]) <= 1e-9, f'{what}: occupancies add up to {got.sum()!r}, atom-frames at sites / frames = {frac_at_sites * states.shape[1]!r}', wit)
    by_type = tr.occupancy_by_site_type()
    locs = tr.atom_locations()
    for lb in set(sys_.labels):
        idx = [i for i, x in enumerate(sys_.labels) if x == lb]
        ctx.check(abs(by_type.get(lb, -1) - occ[idx].mean()) <= 1e-12, f'{what}: occupancy_by_site_type[{lb}]={by_type.get(lb)!r} != mean occupancy {occ[idx].mean()!r}', wit)
        ctx.check(abs(locs.get(lb, -1) - occ[idx].sum() / states.shape[1]) <= 1e-12, f'{what}: atom_locations[{lb}]={locs.get(lb)!r} != {occ[idx].sum() / states.shape[1]!r}', wit)
    ctx.check(abs(sum(locs.values()) - frac_at_sites) <= 1e-9 and set(locs) == set(sys_.labels), f'{what}: atom_locations add up to {sum(locs.values())!r}, fraction of atom-frames at sites is {frac_at_sites!r}', wit)
    return occ


def check_jumps(tr, j, sys_, occ, ctx, what, wit, rng):
    n = tr.n_sites
    data = j.data[['atom index', 'start site', 'destination site', 'start time', 'stop time']].to_numpy().astype(int)
    pairs = Counter((int(r[1]), int(r[2])) for r in data)
    want = np.zeros((n, n), dtype=int)
    for (a, b), c in pairs.items():
        want[a, b] += c
    got = np.asarray(j.matrix())
    ctx.check(got.shape == want.shape and np.array_equal(got, want), f'{what}: Jumps.matrix() != number of jump rows per (origin, destination)', {**wit, 'got': got, 'want': want})
    ctx.check(int(got.sum()) == j.n_jumps == len(data), f'{what}: jump matrix sums to {int(got.sum())}, n_jumps={j.n_jumps}, rows={len(data)}', wit)
    ctx.check(int(np.trace(got)) == 0, f'{what}: jump matrix has a non-empty diagonal', wit)
    c_idx = j._counter()
    ctx.check(dict(c_idx) == dict(pairs), f'{what}: _counter() != counts of (origin, destination) rows', {**wit, 'got': dict(c_idx), 'want': dict(pairs)})
    lab = sys_.labels
    want_lab = Counter()
    for (a, b), c in pairs.items():
        want_lab[lab[a], lab[b]] += c
    c_lab = j.counter()
    ctx.check({k: v for k, v in c_lab.items() if v} == dict(want_lab), f'{what}: counter() is not the per-label aggregation of the jump matrix', {**wit, 'got': dict(c_lab), 'want': dict(want_lab)})
    # jump diffusivity
    d = geom.min_image(sys_.matrix, sys_.site_frac, sys_.site_frac)
    T = len(np.asarray(tr.states))
    nf = np.asarray(tr.states).shape[1]
    for dim in (1, 2, 3):
        w = sum(d[a, b] ** 2 for _, a, b, _, _ in data) * ANG**2 / (2 * dim * nf * T * sys_.time_step)
        g = float(j.jump_diffusivity(dim))
        ctx.check(abs(g - w) <= 1e-9 * max(abs(w), 1e-300), f'{what}: jump_diffusivity({dim})={g!r} != sum d^2/(2 d N t)={w!r}', {**wit, 'jumps': data})
    # graph
    from gemdat.metrics import TrajectoryMetrics

    freq = float(TrajectoryMetrics(tr.diff_trajectory).attempt_frequency()[0])
    G = j.to_graph()
    nodes_ok = sorted(G.nodes) == list(range(n)) and all(G.nodes[i].get('label') == lab[i] for i in range(n))
    ctx.check(nodes_ok, f'{what}: to_graph() nodes are not the sites with their labels', wit)
    support = set(pairs)
    edges = set(G.edges)
    if np.isfinite(freq) and freq > 0:
        ctx.check(edges == support, f'{what}: jump graph edges {sorted(edges)} != support of the jump matrix {sorted(support)}', wit)
        for a, b in edges & support:
            eff = pairs[a, b] / (occ[a] * T * sys_.time_step)
            w = -np.log(eff / freq) * KB * sys_.temperature / QE
            g = G.edges[a, b]['e_act']
            if not abs(g - w) <= 1e-9 * max(abs(w), 1e-12):
                ctx.check(False, f'{what}: e_act of edge {a}->{b} is {g!r}, formula gives {w!r}', wit)
                break
        else:
            ctx.decided()
        # history: thresholded graphs (other arguments of the same cached method), then the plain graph again
        eacts = {e: float(G.edges[e]['e_act']) for e in G.edges}
        if len(eacts) >= 2:
            vals = sorted(eacts.values())
            thr = 0.5 * (vals[len(vals) // 2 - 1] + vals[len(vals) // 2])
            if thr != 0 and all(abs(v - thr) > 1e-12 for v in vals):
                for kw, keep in (({'max_e_act': thr}, lambda v: v <= thr), ({'min_e_act': thr}, lambda v: v >= thr)):
                    Gt = j.to_graph(**kw)
                    want_e = {e for e, v in eacts.items() if keep(v)}
                    ctx.check(set(Gt.edges) == want_e, f'{what}: to_graph({kw}) has edges {sorted(Gt.edges)}, expected those with e_act inside the window: {sorted(want_e)}', wit)
                # a threshold read back from the graph itself (e.g. max_e_act = the largest value shown): edges AT the
                # threshold are not "above" / "below" it and stay (documented: reject edges above / below the threshold)
                thr_x = float(vals[int(rng.integers(len(vals)))])
                if thr_x != 0:
                    for kw, keep in (({'max_e_act': thr_x}, lambda v: v <= thr_x), ({'min_e_act': thr_x}, lambda v: v >= thr_x), ({'min_e_act': thr_x, 'max_e_act': thr_x}, lambda v: v == thr_x)):
                        Gt = j.to_graph(**kw)
                        want_e = {e for e, v in eacts.items() if keep(v)}
                        ctx.check(set(Gt.edges) == want_e, f'{what}: to_graph({kw}) with a threshold equal to the e_act of an edge has edges {sorted(Gt.edges)}, expected {sorted(want_e)} (edges at the threshold are kept)', wit)
                    ctx.count('graph_thresholds_equal_to_an_edge_value')
                G_again = j.to_graph()
                ctx.check(set(G_again.edges) == support and all(abs(float(G_again.edges[e]['e_act']) - eacts[e]) <= 1e-12 * max(1, abs(eacts[e])) for e in support), f'{what}: to_graph() after thresholded calls has edges {sorted(G_again.edges)}; the jump matrix has support {sorted(support)}', wit)
                ctx.count('graph_threshold_histories')
    else:
        ctx.count('attempt_frequency_not_finite')
        ctx.check(edges <= support, f'{what}: jump graph has edges outside the support of the jump matrix', wit)
    # repeat the bookkeeping queries after everything else: same answers (cached or not)
    ctx.check(np.array_equal(np.asarray(j.matrix()), want) and dict(j._counter()) == dict(pairs) and {k: v for k, v in j.counter().items() if v} == dict(want_lab), f'{what}: matrix()/_counter()/counter() changed after the other queries were made', wit)
    # rates: consistent aggregation of the per-part counters
    n_parts = int(rng.integers(2, 5))
    try:
        parts = j.split(n_parts)
        rates = j.rates(n_parts)
    except ValueError as exc:
        ctx.count('rates_not_available:' + str(exc)[:30])
        return
    if not ctx.check(len(parts) == n_parts, f'{what}: Jumps.split({n_parts}) returned {len(parts)} parts; rates({n_parts}) divides by the duration of one of {n_parts} parts', wit):
        return
    part_counters = [p.counter() for p in parts]
    # the parts count jumps by the parent's definition: recounting a part's own transitions with the parent's
    # settings gives the part's jump table
    r_par = int(getattr(j, 'minimal_residence', 0))
    for pi, p in enumerate(parts):
        try:
            again = p.transitions.jumps(minimal_residence=r_par)
            rows_again = sorted(tuple(int(x) for x in r) for r in again.data[JCOLS].to_numpy())
        except ValueError as exc:
            if 'No jumps found' not in str(exc):
                raise
            rows_again = []
        rows_part = sorted(tuple(int(x) for x in r) for r in p.data[JCOLS].to_numpy())
        if not ctx.check(rows_part == rows_again, f'{what}: part {pi} of Jumps.split({n_parts}) holds {len(rows_part)} jumps; its own transitions counted with the parent setting minimal_residence={r_par} give {len(rows_again)}', wit):
            break
    ctx.count('split_parts_recounted_with_parent_settings', len(parts))
    ctx.count('split_parts_recounted_with_residence>0', len(parts) if r_par > 0 else 0)
    part_time = T * sys_.time_step / n_parts
    ok = True
    for (la, lb) in {(x, y) for x in lab for y in lab}:
        nj = [pc[la, lb] for pc in part_counters]
        wm = np.mean(nj) / (nf * part_time)
        ws = np.std(nj, ddof=1) / (nf * part_time)
        row = rates.loc[(la, lb)]
        gm, gs = float(np.atleast_1d(row['rates'])[0]), float(np.atleast_1d(row['std'])[0])
        if not (abs(gm - wm) <= 1e-9 * max(wm, 1e-300) and abs(gs - ws) <= 1e-9 * max(ws, 1e-300)):
            ok = False
            ctx.check(False, f'{what}: rates({n_parts})[{la}->{lb}]=({gm!r},{gs!r}) != mean/std of the part counts {nj} / (N x part time) = ({wm!r},{ws!r})', wit)
            break
    if ok:
        ctx.decided()
        ctx.count('rates_checked')
    # consistency with the jump matrix: time parts can lose jumps that straddle a part edge, never gain
    for (la, lb) in {(x, y) for x in lab for y in lab}:
        row = rates.loc[(la, lb)]
        implied = float(np.atleast_1d(row['rates'])[0]) * nf * part_time * n_parts
        if implied > want_lab.get((la, lb), 0) + 1e-6:
            ctx.check(False, f'{what}: rates({n_parts})[{la}->{lb}] implies {implied!r} jumps, the jump matrix records only {want_lab.get((la, lb), 0)}', wit)
            break
    else:
        ctx.decided()


def run_unit(unit, rng, ctx):
    f = float(rng.choice([1.0, 1.0, 0.5]))
    sys_ = gen.make_site_system(rng, T=int(rng.integers(12, 90)), inner_fraction=f, margin=0.04, p_move=float(rng.choice([0.15, 0.3, 0.5])), n_sites=int(rng.integers(2, 9)), p_direct=float(rng.choice([0.3, 0.3, 0.3, 0.9, 1.0])))
    if unit['i'] % 16 == 9 and sys_.n_floating >= 2:
        # a roomy site: the second diffusing atom sits in the same site as the first one (when that is at a site)
        inv_ = np.linalg.inv(sys_.matrix)
        s0 = sys_.states_true[:, 0]
        at = s0 >= 0
        jit = (gen.random_unit_vectors(rng, len(s0)) * (0.3 * sys_.inner_fraction * sys_.radii[np.clip(s0, 0, None)])[:, None]) @ inv_
        sys_.coords[at, 1] = np.mod(sys_.site_frac[s0[at]] + jit[at], 1)
        sys_.states_true[at, 1] = s0[at]
        sys_.inner_true[at, 1] = s0[at]
        ctx.count('systems_with_two_atoms_sharing_a_site')
    what = f'{sys_.kind}{"/rot" if sys_.rotated else ""} sites={len(sys_.site_frac)} labels={sys_.labels} atoms={sys_.n_floating} f={f}'
    wit = {'matrix': sys_.matrix, 'site_frac': sys_.site_frac, 'labels': sys_.labels, 'states': sys_.states_true}
    with warnings.catch_warnings():
        warnings.simplefilter('ignore')
        try:
            tr = sys_.transitions()
        except ValueError as exc:
            if 'need at least one array' in str(exc):
                ctx.count('static_history_no_events')
                ctx.case(None, False)
                return
            raise
        check_transitions_matrix(tr, ctx, what, wit)
        if unit['i'] % 3 == 1 and len(tr.events) >= 1:
            # the same object rebuilt around its event table with the named columns in another order (a hand-built
            # table, set_index / reset_index): the bookkeeping reads the columns by name
            from gemdat.transitions import Transitions

            cols_ = [str(c_) for c_ in rng.permutation(list(tr.events.columns))]
            tr_p = Transitions(trajectory=tr.trajectory, diff_trajectory=tr.diff_trajectory, sites=tr.sites, events=tr.events[cols_].copy(), states=np.asarray(tr.states).copy(), inner_states=np.asarray(tr.inner_states).copy())
            check_transitions_matrix(tr_p, ctx, what + f' [event table columns ordered {cols_}]', wit)
            try:
                j_p = tr_p.jumps()
            except ValueError as exc:
                if 'No jumps found' not in str(exc):
                    raise
                j_p = None
            if j_p is not None:
                rows_p = Counter((int(a_), int(b_)) for a_, b_ in j_p.data[['start site', 'destination site']].to_numpy())
                want_p = np.zeros((tr_p.n_sites, tr_p.n_sites), dtype=int)
                for (a_, b_), c_ in rows_p.items():
                    want_p[a_, b_] += c_
                got_p = np.asarray(j_p.matrix())
                ctx.check(got_p.shape == want_p.shape and np.array_equal(got_p, want_p) and dict(j_p._counter()) == dict(rows_p), f'{what} [event table columns ordered {cols_}]: Jumps.matrix() / _counter() are not the counts of the (origin, destination) columns of the jump table', {**wit, 'got': got_p, 'want': want_p})
            ctx.count('objects_rebuilt_around_a_column_permuted_event_table')
        st_ = np.asarray(tr.states)
        if max((np.sum(st_ == i_) for i_ in range(tr.n_sites)), default=0) > len(st_):
            # a site holding more than one atom on average: everything that builds on the occupancies is refused
            # loudly by the library; only the refusal (or correct numbers) is checked here
            check_occupancy(tr, sys_, ctx, what, wit)
            ctx.case(signature(st_, sys_.site_frac, sys_.labels), False)
            return
        occ = check_occupancy(tr, sys_, ctx, what, wit)
        # the same bookkeeping on time parts (objects whose trajectory and state array have other lengths)
        n_ev = len(tr.events)
        if n_ev >= 2 and len(np.asarray(tr.states)) >= 8:
            n_parts = int(rng.integers(2, min(4, n_ev, len(np.asarray(tr.states)) // 3) + 1))
            try:
                for pi, part in enumerate(tr.split(n_parts)):
                    try:
                        check_occupancy(part, sys_, ctx, what + f' [part {pi} of split({n_parts})]', wit)
                        ctx.count('occupancy_checked_on_split_parts')
                    except ValueError as exc:
                        if 'occupancies sum to more than 1' in str(exc):
                            ctx.check(False, what + f' [part {pi} of split({n_parts})]: occupancy() raised {exc}', wit)
                        else:
                            raise
            except ValueError as exc:
                if 'Not enough transitions' not in str(exc):
                    raise
        n_j = 0
        mr_ = int(rng.choice([0, 0, 2, 3]))
        # "recorded moves": with the default settings (inner fraction 1, no minimal residence) a move is a change of
        # the last visited site in the state history (the C04 model), also for atoms that only ever hop directly
        # from site to site and are never seen at no-site
        moves = models.default_jumps(st_) if (f == 1.0 and mr_ == 0 and np.array_equal(st_, np.asarray(tr.inner_states))) else None
        try:
            j = tr.jumps(minimal_residence=mr_)
        except ValueError as exc:
            if 'No jumps found' not in str(exc):
                raise
            j = None
            ctx.count('no_jumps')
            if moves is not None:
                ctx.check(len(moves) == 0, f'{what}: "No jumps found" although the state history holds {len(moves)} moves, e.g. {moves[:3]} (atom,origin,dest,start,stop)', wit)
        if j is not None and moves is not None:
            want_m = np.zeros((tr.n_sites, tr.n_sites), dtype=int)
            for _a, o_, d_, _s, _e in moves:
                want_m[o_, d_] += 1
            got_m = np.asarray(j.matrix())
            ctx.check(got_m.shape == want_m.shape and np.array_equal(got_m, want_m), f'{what}: jump matrix != number of moves per (origin, destination) in the state history; differs at {np.argwhere(got_m != want_m)[:4].tolist() if got_m.shape == want_m.shape else got_m.shape}', {**wit, 'got': got_m, 'want': want_m})
            only_direct = [a_ for a_ in range(st_.shape[1]) if (st_[:, a_] >= 0).all() and len(set(st_[:, a_].tolist())) > 1]
            ctx.count('atoms_that_only_hop_directly_between_sites', len(only_direct))
            ctx.count('matrices_compared_with_moves_of_the_state_history')
        if j is not None:
            n_j = j.n_jumps
            check_jumps(tr, j, sys_, occ, ctx, what, wit, rng)
    ev = tr.events[['start site', 'destination site']].to_numpy()
    nosite_events = int(np.sum((ev < 0).any(axis=1)))
    ctx.count('events_total', len(ev))
    ctx.count('events_with_nosite', nosite_events)
    ctx.count('jumps_total', n_j)
    ctx.count(f'lattice:{sys_.kind}')
    ctx.case(signature(np.asarray(tr.states), sys_.site_frac, sys_.labels), n_j >= 2 and nosite_events > 0 and len(set(sys_.labels)) > 1, sample={'lattice': sys_.kind, 'sites': len(sys_.site_frac), 'labels': sys_.labels, 'atoms': sys_.n_floating, 'T': len(sys_.states_true), 'events': len(ev), 'events_with_nosite': nosite_events, 'jumps': n_j})
