"""C01 — periodic positions / displacements are exact, wrapped, lattice-shift invariant."""
from __future__ import annotations

import os

import numpy as np

from .. import gen, geom, snap
from ..core import signature
from ..monitor import Monitor

ID = 'C01'
LEVEL = 'exploration'
RULE = (
    'cases: random walks (per-coordinate true step <= 0.45 cell, in a quarter of the cases with injected near-half-cell steps up to 0.4999) of 1-6 atoms x 1-60 frames in a random cell of '
    'the lattice zoo (8 Bravais classes, half of them arbitrarily rotated); 0-30 % of the coordinates replaced by '
    '"integer + hostile value" (0, -0.0, 1, -1e-17, 1-1e-16, nextafter, denormals ...); input given unwrapped, '
    'wrapped, or as displacements + base positions; every case is evaluated twice: as generated and with '
    'independent per-coordinate integer shifts in [-3, 3]; accessors are queried in random order (in-place '
    'representation switch); single frames are also read through traj[i] / get_structure(i) / iteration, on a never-queried object in half of the cases.  Oracle: harness ground truth (the unwrapped walk).  Non-trivial = the walk crosses '
    'a cell face or contains a hostile coordinate; distinct = SHA-1 of the input array.'
)
RULE += ' Added in rounds 8-10: slices / split parts not starting at frame 0 examined as trajectories of their own; chunks joined with extend() (the second chunk may repeat the previous last frame); a sixth of the cases shifted by up to thousands of cells.'
RULE += ' Round 16: coordinate arrays in single precision with values a hair below a cell face.'
RULE += ' Round 15: repr() / str() of the object among the queries.'
RULE += ' Round 14: sub-trajectories also with a stride (every 2nd / 3rd / 5th frame).'
RULE += ' Round 13: a fifth of the walks also as variable-cell trajectories (one lattice per frame): positions, displacements, cumulative displacements, single-frame access.'
RULE += ' Round 12 (thorough tier; quick with GV_HUGE=1): one trajectory of 11.3-12 million atom-frames (more than 256 MiB of coordinates): displacement bound, running sum against every frame, cumulative displacements against the unwrapped walk, position round trip.'
ASSUMPTIONS = [
    'true per-step displacements stay below 0.4999 cell per coordinate (a step of exactly half a cell has no defined minimum image)',
    'equalities between floating-point results use 1e-9 (relative to the data); range [0,1) is checked strictly',
]
N_CASES = {'quick': 640, 'thorough': 300000}
BUDGET_S = {'quick': 200, 'thorough': 3600}

_mon = Monitor()
_state = {'ctx': None}


def units(tier):
    out = [{'k': 'rand', 'i': i} for i in range(N_CASES[tier])]
    # a trajectory whose coordinate array exceeds 256 MiB (11.3-12 million atom-frames); ~90 s and ~2 GB, so it is part
    # of the thorough tier, and of the quick tier only on request (GV_HUGE=1)
    if tier == 'thorough' or os.environ.get('GV_HUGE') == '1':
        out += [{'k': 'huge', 'i': 0}]
    return out


def _range_contract(result, args, kwargs):
    ctx = _state['ctx']
    if ctx is None:
        return
    a = np.asarray(result)
    ctx.decided()
    if a.size and not (a.min() >= 0 and a.max() < 1):
        bad = a[(a < 0) | (a >= 1)]
        ctx.violation(f'Trajectory.positions returned a coordinate outside [0, 1): {bad.ravel()[:3].tolist()!r}', {'offending': bad.ravel()[:10]})


def setup(ctx):
    from gemdat import Trajectory

    _state['ctx'] = ctx
    _mon.attach(Trajectory, 'positions', post=_range_contract, label='Trajectory.positions')
    _mon.attach(Trajectory, 'displacements', label='Trajectory.displacements')
    from .. import retain as _rt

    _mon.attach(Trajectory, 'cumulative_displacements', label='Trajectory.cumulative_displacements', retain=_rt.auto)
    _mon.attach(Trajectory, 'distances_from_base_position', label='Trajectory.distances_from_base_position', retain=_rt.auto, scribble=True)
    _mon.attach(Trajectory, 'to_positions', label='Trajectory.to_positions')


def teardown(ctx):
    _mon.flush_counts(ctx)
    _mon.detach_all()
    _state['ctx'] = None


def hostile_walk(rng, T, N, p_hostile, p_big=0.0):
    """Unwrapped walk U[t, a, c]; returns (U, hostile mask).

    p_big: probability per coordinate and frame of a near-half-cell step (0.45 .. 0.4999).
    """
    U = np.empty((T, N, 3))
    mask = np.zeros((T, N, 3), dtype=bool)
    U[0] = rng.uniform(-2, 3, size=(N, 3))
    scale = rng.uniform(0.02, 0.45, size=(N, 1))
    H = np.array(gen.HOSTILE)
    for t in range(T):
        if t > 0:
            step = rng.uniform(-1, 1, size=(N, 3)) * scale
            if p_big:
                big = rng.uniform(size=(N, 3)) < p_big
                step = np.where(big, rng.choice([-1.0, 1.0], size=(N, 3)) * rng.uniform(0.45, 0.4999, size=(N, 3)), step)
            U[t] = U[t - 1] + step
        if p_hostile:
            sel = rng.uniform(size=(N, 3)) < p_hostile
            if sel.any():
                h = H[rng.integers(len(H), size=(N, 3))]
                ref = U[t - 1] if t > 0 else U[t]
                cand = h + np.round(ref - h)
                ok = sel & (np.abs(cand - ref) <= 0.45) if t > 0 else sel
                U[t] = np.where(ok, cand, U[t])
                mask[t] = ok
    return U, mask


def build(rng, m, U, mode, names):
    sp = gen.species_objects(names, rng=rng, mode='mixed')
    if mode == 'unwrapped':
        return gen.make_trajectory(m, sp, U.copy())
    if mode == 'wrapped':
        return gen.make_trajectory(m, sp, U - np.floor(U))
    # displacement mode with explicit base positions
    d = np.diff(U, axis=0, prepend=U[:1])
    return gen.make_trajectory(m, sp, d, coords_are_displacement=True, base_positions=U[0].copy())


def examine(traj, X, U, m, ctx, what, order):
    """Run the accessors in the given order and compare with the ground truth."""
    T = len(U)
    steps = np.diff(U, axis=0, prepend=U[:1])
    cum = U - U[:1]
    ok = True
    out = {}
    for acc in order:
        if acc == 'repr':
            # printing the object (notebook echo, debugger, log line) is a query like any other
            ok &= ctx.check(isinstance(repr(traj), str) and isinstance(str(traj), str), f'{what}: repr() / str() of the trajectory is not text')
            ctx.count('objects_printed_between_queries')
        elif acc == 'positions':
            p = np.array(traj.positions)
            ok &= ctx.check(bool(p.min() >= 0 and p.max() < 1), f'{what}: positions outside [0,1): min={p.min()!r} max={p.max()!r}', {'input': X})
            d = geom.circ_diff(p, X)
            # the fractional part of an input coordinate of magnitude |x| is only defined to a few ulp(|x|)
            # ... and a position that went through the displacement representation is first frame + a running sum of up
            # to T differences of such coordinates, each rounded at that magnitude
            tol_in = max(1e-12, (8 + 2 * T) * np.finfo(float).eps * float(np.abs(X).max()))
            ok &= ctx.check(float(d.max()) <= tol_in, f'{what}: positions differ from the input by a non-integer (max circular diff {d.max():.3e})', {'input': X, 'positions': p})
            out['positions'] = p
        elif acc == 'displacements':
            dsp = np.array(traj.displacements)
            ok &= ctx.check(bool(np.all(dsp[0] == 0)), f'{what}: displacements[0] != 0')
            ok &= ctx.check(float(np.abs(dsp).max()) <= 0.5 + 1e-12, f'{what}: displacement component outside [-1/2, 1/2]: {np.abs(dsp).max()}')
            ok &= ctx.check(float(np.abs(dsp - steps).max()) <= 1e-9, f'{what}: displacements are not the minimum-image steps (max dev {np.abs(dsp - steps).max():.3e})', {'input': X, 'displacements': dsp, 'true_steps': steps})
            base = np.asarray(traj.base_positions)
            rec = base[None] + np.cumsum(dsp, axis=0)
            ok &= ctx.check(float(geom.circ_diff(rec, X).max()) <= 1e-9, f'{what}: base + running sum of displacements does not reproduce the frames mod 1')
            out['displacements'] = dsp
        elif acc == 'cumulative':
            c = np.array(traj.cumulative_displacements)
            ok &= ctx.check(float(np.abs(c - cum).max()) <= 1e-9 * max(1.0, np.abs(cum).max()), f'{what}: cumulative displacements differ from the unwrapped walk (max dev {np.abs(c - cum).max():.3e})', {'input': X})
            out['cumulative'] = c
        elif acc == 'distances':
            dist = np.array(traj.distances_from_base_position())
            want = geom.cart_len(m, cum).T
            ok &= ctx.check(dist.shape == want.shape and float(np.abs(dist - want).max()) <= 1e-9 * max(1.0, want.max()), f'{what}: distances_from_base_position differ from the Cartesian length of the unwrapped displacement', {'input': X, 'got': dist, 'want': want})
            out['distances'] = dist
    return ok, out


def frames_check(traj, X, ctx, what, rng):
    """Positions reported through single-frame access: traj[i], get_structure(i), iteration."""
    T = len(X)
    how = str(rng.choice(['index', 'get_structure', 'iter']))
    if how == 'iter':
        got = [(i, s) for i, s in enumerate(traj)]
        ctx.check(len(got) == T, f'{what}: iterating the trajectory gave {len(got)} frames, it has {T}')
    else:
        idx = sorted({int(i) for i in rng.integers(T, size=min(T, 6))} | {0, T - 1})
        got = [(i, traj[i] if how == 'index' else traj.get_structure(i)) for i in idx]
    for i, s in got[:T]:
        f = np.asarray(s.frac_coords)
        ok = ctx.check(bool(f.min() >= 0 and f.max() < 1), f'{what}: frame {i} via {how} reports a coordinate outside [0,1): min={f.min()!r} max={f.max()!r}', {'input': X})
        ok and ctx.check(float(geom.circ_diff(f, X[i]).max()) <= 1e-12, f'{what}: frame {i} via {how} differs from the input by a non-integer', {'input': X, 'frame': f})
    ctx.count(f'single_frame_access:{how}', len(got))


def run_huge(unit, rng, ctx):
    kind, rot, m = geom.random_lattice(rng)
    N = int(rng.integers(1, 4))
    T = int(rng.integers(11_300_000, 12_000_000)) // N + 1
    steps = rng.uniform(-0.45, 0.45, size=(T, N, 3))
    steps[0] = 0
    U = np.cumsum(steps, axis=0)
    U += rng.uniform(0, 1, size=(1, N, 3))
    del steps
    X = U - np.floor(U)
    X[X == 1] = 0
    traj = gen.make_trajectory(m, ['Li'] * N, X, presentation='plain')
    what = f'{kind} {T} frames x {N} atoms ({X.nbytes / 2**20:.0f} MiB of coordinates)'
    d = np.asarray(traj.displacements)
    ok = d.shape == X.shape
    ctx.check(ok, f'{what}: displacements have shape {d.shape}')
    if ok:
        ctx.check(float(np.abs(d).max()) <= 0.5 + 1e-12, f'{what}: a displacement component exceeds half a cell ({np.abs(d).max()!r})')
        # running sum + first frame reproduces every frame modulo 1; the frame-to-frame steps are those of the walk
        rs = np.cumsum(d, axis=0)
        rs += X[:1]
        rs -= X
        rs -= np.round(rs)
        worst = np.abs(rs).reshape(T, -1).max(axis=1)
        t_bad = int(np.argmax(worst > 1e-9))
        ctx.check(float(worst.max()) <= 1e-9, f'{what}: first frame + running sum of the displacements differs from frame {t_bad} by {worst[t_bad]:.3e} (modulo 1)')
        del rs
        cd = np.asarray(traj.cumulative_displacements)
        ref = U - U[:1]
        dev = np.abs(cd - ref).reshape(T, -1).max(axis=1)
        t_bad = int(np.argmax(dev > 1e-7))
        ctx.check(float(dev.max()) <= 1e-7, f'{what}: cumulative displacement at frame {t_bad} deviates from the unwrapped walk by {dev[t_bad]:.3e} (fractional)')
        del cd, ref
        p = np.asarray(traj.positions)
        dd = np.abs(p - X)
        dd = np.minimum(dd, 1 - dd)
        ctx.check(bool(p.min() >= 0 and p.max() < 1) and float(dd.max()) <= 1e-9, f'{what}: positions after a displacement round trip differ from the input by {dd.max():.3e}')
    ctx.count('trajectories_with_more_than_256_MiB_of_coordinates')
    ctx.case(f'huge{unit["i"]}', True, sample={'kind': 'huge', 'frames': T, 'atoms': N, 'MiB': int(X.nbytes / 2**20)})


def run_unit(unit, rng, ctx):
    if unit.get('k') == 'huge':
        return run_huge(unit, rng, ctx)
    kind, rot, m = geom.random_lattice(rng)
    T = int(rng.integers(1, 61))
    N = int(rng.integers(1, 7))
    p_h = float(rng.choice([0.0, 0.05, 0.3]))
    p_big = float(rng.choice([0.0, 0.0, 0.05, 0.3]))
    U, hmask = hostile_walk(rng, T, N, p_h, p_big)
    names = [str(x) for x in rng.choice(['Li', 'S', 'Si', 'Na'], size=N)]
    mode = str(rng.choice(['unwrapped', 'wrapped', 'displacement']))
    K = rng.integers(-3, 4, size=U.shape).astype(float)
    if unit['i'] % 6 == 5:
        # images that are thousands of cells away (coordinates keep about 12 significant decimals)
        K = np.round(K * 10.0 ** rng.uniform(1, 3.5))
        ctx.count('cases_shifted_by_up_to_thousands_of_cells')
    U2 = U + K
    X1 = U - np.floor(U) if mode == 'wrapped' else U
    accs = ['positions', 'displacements', 'cumulative', 'distances']
    order1 = [accs[i] for i in rng.integers(len(accs), size=7)] + list(rng.permutation(accs))
    order2 = list(rng.permutation(accs)) + ['positions']
    if unit['i'] % 3 == 1:
        for _ in range(2):
            order1.insert(int(rng.integers(1, len(order1))), 'repr')
        order2.insert(int(rng.integers(1, len(order2))), 'repr')
    what = f'{kind}{"/rot" if rot else ""} T={T} N={N} mode={mode}'
    t1 = build(rng, m, U, mode, names)
    _, o1 = examine(t1, X1, U, m, ctx, what, order1)
    # integer-shifted copy (always handed over as positions: the shift is about input coordinates)
    t2 = gen.make_trajectory(m, gen.species_objects(names), U2.copy())
    _, o2 = examine(t2, U2, U, m, ctx, what + ' [shifted]', order2)
    # single-frame entry points (traj[i], get_structure(i), iteration) report positions too; asked first on
    # a never-queried object in half of the cases, after the other accessors otherwise
    if unit['i'] % 2 == 0:
        t3 = build(rng, m, U, mode, names)
        frames_check(t3, X1, ctx, what + ' [fresh object]', rng)
    else:
        frames_check(t1, X1, ctx, what + ' [after other accessors]', rng)
    # a sub-trajectory that does not start at frame 0 (slice, split part) is a periodic trajectory of its own:
    # its displacements, positions and cumulative displacements are those of its own frames
    if T >= 4 and unit['i'] % 3 == 0:
        a_ = int(rng.integers(1, T - 1))
        b_ = int(rng.integers(a_ + 1, T + 1))
        if rng.integers(2):
            k_ = int(rng.choice([1, 1, 2, 3, 5]))
            part, Us = t1[a_:b_:k_], U[a_:b_:k_]
            origin = f'[{a_}:{b_}:{k_}]'
            if k_ > 1 and len(Us) >= 1:
                # every k-th frame: the steps between the selected frames are their minimum-image differences
                st_k = np.diff(Us, axis=0, prepend=Us[:1])
                mi_k = st_k - np.round(st_k)
                if float(np.abs(np.abs(mi_k) - 0.5).min()) < 1e-9:
                    # a summed step within rounding of half a cell has two equally short images: not decidable
                    ctx.count('strided_sub_trajectories_skipped(step at half a cell)')
                    Us = None
                else:
                    Us = Us[:1] + np.cumsum(mi_k, axis=0)
                    ctx.count('strided_sub_trajectories')
        else:
            n_ = int(rng.integers(2, min(5, T - 1) + 1))
            parts_ = t1.split(n_)
            j_ = int(rng.integers(1, n_))
            part = parts_[j_]
            # locate the part's frames in the source (Trajectory.split ranges are C19's subject)
            pp_ = snap.traj_positions_raw(part)
            Xw = X1 - np.floor(X1)
            start_ = next((s_ for s_ in range(0, T - len(pp_) + 1) if float(geom.circ_diff(pp_, Xw[s_ : s_ + len(pp_)]).max()) <= 1e-9), None)
            Us = U[start_ : start_ + len(pp_)] if start_ is not None else None
            origin = f'.split({n_})[{j_}]'
        if Us is not None and len(Us) >= 1:
            Xs = Us - np.floor(Us)
            order_s = [str(x_) for x_ in rng.permutation(['displacements', 'positions', 'cumulative', 'distances'])] + ['positions']
            examine(part, Xs, Us, m, ctx, what + f' [sub-trajectory {origin}]', order_s)
            ctx.count('sub_trajectories_not_starting_at_frame_0')
    # coordinates handed over in single precision (a float32 dump read with numpy): wrapped positions still lie in
    # [0, 1) - values a hair below a face (-1e-9, 1 - 6e-8 in float32) included - and equal the input modulo 1
    if unit['i'] % 7 == 4:
        from gemdat import Trajectory
        from pymatgen.core import Lattice

        X32 = np.asarray(U if mode != 'wrapped' else U - np.floor(U), dtype=np.float32)
        hm_ = rng.uniform(size=X32.shape) < 0.2
        vals_ = np.array([-1e-9, -3e-8, -1e-12, np.nextafter(np.float32(1), np.float32(0)), 1.0, 0.0, -0.0, 2.0 - 1e-7], dtype=np.float32)
        X32[hm_] = vals_[rng.integers(len(vals_), size=int(hm_.sum()))]
        t32 = Trajectory(species=gen.species_objects(names), coords=X32.copy(), lattice=Lattice(m), time_step=1e-15, metadata={'temperature': 300.0})
        order_32 = [str(x_) for x_ in rng.permutation(['positions', 'displacements', 'positions'])]
        for acc_ in order_32:
            if acc_ == 'displacements':
                _ = t32.displacements
                continue
            p32 = np.asarray(t32.positions)
            ok32 = ctx.check(bool(p32.min() >= 0 and p32.max() < 1), f'{what} [float32 coordinates]: positions outside [0,1): min={p32.min()!r} max={p32.max()!r} (dtype {p32.dtype})', {'input': X32})
            d32 = geom.circ_diff(np.asarray(p32, dtype=float), np.asarray(X32, dtype=float))
            ok32 and ctx.check(float(d32.max()) <= (8 + 2 * T) * float(np.finfo(np.float32).eps) * max(1.0, float(np.abs(X32).max())), f'{what} [float32 coordinates]: positions differ from the input by a non-integer (max circular diff {d32.max():.3e})', {'input': X32})
        ctx.count('float32_coordinate_arrays')
    # a variable-cell run (one lattice per frame, as the loaders build with constant_lattice=False) is a periodic
    # trajectory too: every fractional clause applies (Cartesian distances need one cell and are left out)
    if unit['i'] % 5 == 2:
        from gemdat import Trajectory

        lat_t = np.stack([m * (1 + 0.02 * np.sin(0.3 * t_ + 1.0)) for t_ in range(T)])
        Xv = X1 if mode != 'displacement' else U
        tv = Trajectory(species=gen.species_objects(names), coords=Xv.copy(), lattice=lat_t, constant_lattice=False, time_step=1e-15, metadata={'temperature': 300.0})
        order_v = [str(x_) for x_ in rng.permutation(['positions', 'displacements', 'cumulative'])] + ['positions']
        examine(tv, Xv, U, m, ctx, what + ' [variable cell]', order_v)
        frames_check(tv, Xv, ctx, what + ' [variable cell]', rng)
        ctx.count('variable_cell_trajectories')
    # a copy obtained through pickle / deepcopy / the cache file of an object that is currently in either storage
    # mode is the same periodic trajectory
    if unit['i'] % 4 == 3:
        import copy
        import os
        import pickle
        import tempfile

        src = build(rng, m, U, mode, names)
        if rng.integers(2):
            _ = src.cumulative_displacements if rng.integers(2) else src.distances_from_base_position()
        how = str(rng.choice(['pickle', 'deepcopy', 'cache']))
        if how == 'pickle':
            cp = pickle.loads(pickle.dumps(src))
        elif how == 'deepcopy':
            cp = copy.deepcopy(src)
        else:
            fd, pth = tempfile.mkstemp(suffix='.cache')
            os.close(fd)
            try:
                src.to_cache(pth)
                cp = type(src).from_cache(pth)
            finally:
                os.unlink(pth)
        examine(cp, X1, U, m, ctx, what + f' [{how} copy of an object in {"displacement" if src.coords_are_displacement else "position"} storage]', [str(x_) for x_ in rng.permutation(['positions', 'displacements', 'cumulative', 'distances'])])
        ctx.count(f'serialised_copies:{how}')
        ctx.count('serialised_copies_of_objects_in_displacement_storage', bool(src.coords_are_displacement))
    # a trajectory assembled from chunks with extend(); the second chunk may start with a configuration that
    # repeats the last one of the first chunk (restart files, a static step): every input frame stays a frame
    if T >= 3 and unit['i'] % 5 == 1:
        k_ = int(rng.integers(1, T))
        rep_ = bool(rng.integers(2))
        Ub = np.concatenate([U[k_ - 1 : k_] + rng.integers(-2, 3, size=(1, N, 3)) if rep_ else np.empty((0, N, 3)), U[k_:]])
        Ue = np.concatenate([U[:k_], U[k_ - 1 : k_] if rep_ else np.empty((0, N, 3)), U[k_:]])
        if len(Ub) >= 1:
            ta = build(rng, m, U[:k_], 'unwrapped' if mode == 'displacement' else mode, names)
            tb = gen.make_trajectory(m, list(ta.species), Ub.copy())
            ta.extend(tb)
            if ctx.check(len(ta) == len(Ue), f'{what} [chunks joined with extend, second chunk {"repeats" if rep_ else "continues"} the last frame]: {len(ta)} frames, {len(Ue)} were put in', {'input': Ue}):
                examine(ta, Ue - np.floor(Ue), Ue, m, ctx, what + f' [chunks joined with extend at {k_}, repeated frame: {rep_}]', [str(x_) for x_ in rng.permutation(['positions', 'displacements', 'cumulative', 'distances'])])
            ctx.count('chunked_trajectories_joined_with_extend')
            ctx.count('chunks_repeating_the_previous_last_frame', rep_)
    for key in ('cumulative', 'distances'):
        if key in o1 and key in o2:
            scale = max(1.0, float(np.abs(o1[key]).max()))
            ctx.check(float(np.abs(o1[key] - o2[key]).max()) <= 1e-9 * scale, f'{what}: {key} changed under integer lattice shifts of the input (max dev {np.abs(o1[key] - o2[key]).max():.3e})', {'input': X1, 'shift': K})
    if T >= 2:
        m1 = np.asarray(t1.mean_squared_displacement())
        m2 = np.asarray(t2.mean_squared_displacement())
        ctx.check(float(np.abs(m1 - m2).max()) <= 1e-9 * max(1.0, float(np.abs(m1).max())), f'{what}: MSD changed under integer lattice shifts', {'input': X1, 'shift': K})
        d1 = float(t1.metrics().tracer_diffusivity(dimensions=3))
        d2 = float(t2.metrics().tracer_diffusivity(dimensions=3))
        d_noise = 1e-32 / (6 * T * 1e-15)  # the diffusivity of a 1e-6 A displacement: below that is rounding noise
        ctx.check(abs(d1 - d2) <= 1e-9 * abs(d1) + d_noise, f'{what}: tracer diffusivity changed under integer lattice shifts: {d1} vs {d2}')
    if unit['i'] % 4 == 0:
        # downstream consumer that asserts the [0,1) range
        try:
            t1.to_volume(resolution=float(np.linalg.norm(m, axis=1).min()) / 3.0)
            ctx.decided()
        except AssertionError as exc:
            ctx.violation(f'{what}: to_volume asserted on the positions of a valid trajectory: {exc!r}', {'input': X1})
        ctx.count('to_volume_calls')
    crossings = int(np.sum(np.floor(U[1:]) != np.floor(U[:-1]))) if T > 1 else 0
    n_host = int(hmask.sum())
    ctx.count('face_crossings', crossings)
    ctx.count('near_half_cell_steps(>0.45)', int(np.sum(np.abs(np.diff(U, axis=0)) > 0.45)) if T > 1 else 0)
    ctx.count('hostile_coordinates', n_host)
    ctx.count(f'lattice:{kind}')
    ctx.count('rotated_cells', rot)
    ctx.count(f'mode:{mode}')
    ctx.case(signature(U, mode), crossings > 0 or n_host > 0, sample={'lattice': kind, 'rotated': rot, 'T': T, 'N': N, 'mode': mode, 'hostile_coords': n_host, 'face_crossings': crossings, 'first_frame_input': X1[0], 'shift_first_frame': K[0]})
