"""C19 — time-partitioning for statistics conserves states and events."""
from __future__ import annotations

import copy
import warnings
from collections import Counter

import numpy as np

from .. import gen, geom, models, snap
from ..core import signature
from ..monitor import Monitor

ID = 'C19'
LEVEL = 'exploration'
RULE = (
    'cases: margin-controlled pipeline systems with 4-400 frames (thorough: up to 1500), hop histories with events '
    'at the first and last possible frame; for every system Transitions.split / Jumps.split / Jumps.rates are run '
    'for several n_parts (all values 1..#events for small systems, random values otherwise) and Trajectory.split '
    'for random n_parts with and without equal_parts.  Oracle: every part event must map back (with one offset per '
    'part) onto exactly one original event, parts in chronological order, states concatenating to the original, part '
    'jumps being jumps of the whole.  Non-trivial = n_parts >= 2 and events in at least two different parts; '
    'distinct = SHA-1 of (states, n_parts).'
)
RULE += ' Added in rounds 6-10: nested splits; re-presented event tables; every Trajectory.split part round-tripped through displacements; objects whose diffusing-species trajectory is not the species filter of the full trajectory.'
RULE += ' Round 16: re-presented event tables also with permuted named columns or an appended extra column.'
RULE += ' Round 14: a quarter of the Jumps objects are built with a custom conversion rule (single-step moves only); their parts must follow the same rule.'
ASSUMPTIONS = [
    "Jumps.split / rates raising ValueError('No jumps found') is accepted iff no jump of the whole lies completely inside some part's time bin (documented API behaviour)",
    'Trajectory.split without equal_parts is taken to tile the source without gaps; at most one trailing frame may stay unused (the implementation drops the last frame)',
    "Transitions.split raising 'Not enough transitions' is accepted iff n_parts exceeds the number of events",
    'K7: n_parts >= n_frames makes Trajectory.split build an empty sub-trajectory (IndexError); tolerated only for exactly that input class',
]
N_CASES = {'quick': 260, 'thorough': 20000}
BUDGET_S = {'quick': 220, 'thorough': 3600}
ECOLS = ['atom index', 'start site', 'destination site', 'start inner site', 'destination inner site', 'time']
JCOLS = ['atom index', 'start site', 'destination site', 'start time', 'stop time']

K7 = 'K7-split-more-parts-than-frame-steps'

_mon = Monitor()


N_TSPLIT = {'quick': 40, 'thorough': 600}


def units(tier):
    return [{'k': 'rand', 'i': i} for i in range(N_CASES[tier])] + [{'k': 'tsplit', 'i': i} for i in range(N_TSPLIT[tier])]


def run_tsplit(unit, rng, ctx):
    """Trajectory.split for EVERY n_parts 1..min(T-1, 24) of a trajectory whose frames carry their own
    index in a coordinate, so that each part's frame range can be read off directly."""
    kind, rot, m = geom.random_lattice(rng, lo=4.0, hi=8.0)
    T = int(rng.integers(3, 420)) if unit['i'] % 4 else int(rng.choice([62, 116, 123, 231, 16, 31, 50, 61, 128, 256, 257]))
    N = int(rng.integers(1, 4))
    X = rng.uniform(0, 1, size=(T, N, 3))
    X[:, 0, 0] = (np.arange(T) + 0.5) / (T + 1)
    traj = gen.make_trajectory(m, gen.species_objects(['Li'] * N), X)
    what = f'tsplit T={T}'
    for n in range(1, min(T - 1, 24) + 1):
        for eq in (False, True):
            if rng.integers(3) == 0:
                _ = traj.displacements
            parts = traj.split(n, equal_parts=eq)
            ranges = []
            good = len(parts) == n
            for part in parts:
                idx = np.asarray(copy.deepcopy(part).positions)[:, 0, 0] * (T + 1) - 0.5
                fi = np.round(idx).astype(int)
                if len(fi) == 0 or np.abs(idx - fi).max() > 1e-6 or np.any(np.diff(fi) != 1):
                    good = False
                    break
                ranges.append((int(fi[0]), int(fi[-1]) + 1))
            ctx.decided()
            wit = {'T': T, 'n_parts': n, 'equal_parts': eq, 'ranges': ranges}
            if not good:
                ctx.violation(f'{what}: split({n}, equal_parts={eq}) returned {len(parts)} parts that are not contiguous frame ranges of the source: {ranges}', wit)
                continue
            ordered = all(b[0] >= a[1] for a, b in zip(ranges[:-1], ranges[1:]))
            ctx.check(ordered, f'{what}: split({n}, equal_parts={eq}) parts overlap or are out of order: {ranges}', wit)
            lens = [b - a for a, b in ranges]
            if eq:
                ctx.check(len(set(lens)) == 1, f'{what}: split({n}, equal_parts=True) gave unequal lengths {lens}', wit)
            else:
                gaps = [b[0] - a[1] for a, b in zip(ranges[:-1], ranges[1:])]
                ctx.check(all(g == 0 for g in gaps) and ranges[0][0] == 0 and ranges[-1][1] >= T - 1, f'{what}: split({n}) parts {ranges} do not tile the {T} source frames (at most the last frame may stay unused)', wit)
            ctx.case(f'tsplit-{T}-{n}-{eq}', n >= 2, sample={'kind': 'tsplit', 'T': T, 'n_parts': n, 'equal_parts': eq, 'ranges': ranges[:6]} if n == 7 and not eq else None)
    ctx.count('trajectory_split_sweeps')


def setup(ctx):
    from gemdat import Trajectory
    from gemdat.jumps import Jumps
    from gemdat.transitions import Transitions

    from .. import retain as _rt

    _mon.attach(Transitions, 'split', label='Transitions.split', retain=_rt.transitions_parts)
    _mon.attach(Jumps, 'split', label='Jumps.split', retain=_rt.jumps_parts)
    _mon.attach(Jumps, 'rates', label='Jumps.rates', retain=_rt.auto)
    _mon.attach(Trajectory, 'split', label='Trajectory.split')


def teardown(ctx):
    _mon.flush_counts(ctx)
    _mon.detach_all()


def infer_offsets(orig_rows, part_rows_list):
    """Map every part row to one original event with a single offset per part.

    Returns (offsets, error message or None).  orig_rows / part rows: tuples (a, s0, s1, i0, i1, t).
    """
    remaining = Counter(orig_rows)
    by_key = {}
    for r in orig_rows:
        by_key.setdefault(r[:5], []).append(r[5])
    offsets = []
    for pi, rows in enumerate(part_rows_list):
        if not rows:
            offsets.append(None)
            continue
        r0 = rows[0]
        cands = sorted({t - r0[5] for t in by_key.get(r0[:5], [])})
        chosen = None
        for o in cands:
            if o < 0:
                continue
            need = Counter((*r[:5], r[5] + o) for r in rows)
            if all(remaining.get(k, 0) >= v for k, v in need.items()):
                chosen = o
                break
        if chosen is None:
            return offsets, f'rows of part {pi} (e.g. {r0}) do not map onto unused original events with one non-negative offset'
        remaining.subtract(Counter((*r[:5], r[5] + chosen) for r in rows))
        offsets.append(chosen)
    left = +remaining
    if left:
        return offsets, f'{sum(left.values())} original event(s) appear in no part, e.g. {next(iter(left))}'
    return offsets, None


def check_transitions_split(tr, n, ctx, what, wit, part_positions=None):
    states = np.asarray(tr.states)
    inner = np.asarray(tr.inner_states)
    T = len(states)
    orig = [tuple(int(x) for x in r) for r in tr.events[ECOLS].to_numpy()]
    try:
        parts = tr.split(n)
    except ValueError as exc:
        if 'Not enough transitions' in str(exc) and len(orig) < n:
            ctx.count('split_refused_not_enough_events')
            return None
        ctx.check(False, f'{what}: Transitions.split({n}) raised ValueError: {exc} (events={len(orig)})', wit)
        return None
    except IndexError as exc:
        import traceback

        tb = traceback.format_exc()
        ctx.decided()
        # K7 is Trajectory.split(n) building an empty frame range when n >= the number of frames of the trajectory
        # being split; the trajectory carried by a part of an earlier split can be one frame shorter than its
        # state array (Trajectory.split leaves the last frame unused)
        T_traj = min(len(tr.trajectory), len(tr.diff_trajectory))
        if n >= T_traj and 'index 0 is out of bounds' in str(exc) and 'in split' in tb and 'base_positions = coords[0]' in tb:
            ctx.known_finding(K7, f'{what}: Transitions.split({n}) on {T} state frames / a trajectory of {T_traj} frames ({len(orig)} events) raised IndexError from an empty sub-trajectory')
        else:
            ctx.violation(f'{what}: Transitions.split({n}) raised IndexError: {exc} (frames={T}, events={len(orig)})', {**wit, 'traceback': tb[-1500:]})
        return None
    ok = ctx.check(len(parts) == n, f'{what}: Transitions.split({n}) returned {len(parts)} parts', wit)
    if not ok:
        return None
    cat = np.concatenate([np.asarray(p.states) for p in parts], axis=0)
    cat_i = np.concatenate([np.asarray(p.inner_states) for p in parts], axis=0)
    ctx.check(cat.shape == states.shape and np.array_equal(cat, states) and np.array_equal(cat_i, inner), f'{what}: n={n}: state arrays of the parts do not concatenate to the original', wit)
    prow = [[tuple(int(x) for x in r) for r in p.events[ECOLS].to_numpy()] for p in parts]
    ctx.check(sum(len(r) for r in prow) == len(orig), f'{what}: n={n}: parts hold {sum(len(r) for r in prow)} events, the original {len(orig)}', {**wit, 'part_sizes': [len(r) for r in prow]})
    offsets, err = infer_offsets(orig, prow)
    if err:
        ctx.check(False, f'{what}: n={n}: {err}', {**wit, 'parts': prow, 'original': orig})
        return None
    ctx.decided()
    # chronological order, re-based times inside the part
    known = [(i, o) for i, o in enumerate(offsets) if o is not None]
    chrono = all(o1 <= o2 for (_, o1), (_, o2) in zip(known, known[1:]))
    tmin = [min(r[5] + offsets[i] for r in rows) if rows else None for i, rows in enumerate(prow)]
    tmax = [max(r[5] + offsets[i] for r in rows) if rows else None for i, rows in enumerate(prow)]
    seq = [(a, b) for a, b in zip(tmin, tmax) if a is not None]
    chrono = chrono and all(b1 < a2 for (_, b1), (a2, _) in zip(seq, seq[1:]))
    ctx.check(chrono, f'{what}: n={n}: parts are not in chronological order (offsets {offsets}, time ranges {list(zip(tmin, tmax))})', wit)
    inside = True
    for idx, (i, o) in enumerate(known):
        width = (known[idx + 1][1] - o) if idx + 1 < len(known) else (T + 1 - o)
        taus = [r[5] for r in prow[i]]
        if min(taus) < 0 or max(taus) >= max(width, 1):
            inside = False
    ctx.check(inside, f'{what}: n={n}: a re-based event time is negative or not inside its part (offsets {offsets})', {**wit, 'parts': prow})
    for p in parts:
        if not (len(p.trajectory) <= T and len(p.diff_trajectory) <= T and p.sites is tr.sites):
            ctx.check(False, f'{what}: n={n}: a part carries a longer trajectory than the whole or other sites', wit)
            break
    else:
        ctx.decided()
    if part_positions is not None and n <= 6:
        Pall, nfl = part_positions
        parts_are_frame_ranges([p.trajectory for p in parts], Pall, ctx, what, wit, f'Transitions.split({n}).trajectory')
        parts_are_frame_ranges([p.diff_trajectory for p in parts], Pall[:, :nfl], ctx, what, wit, f'Transitions.split({n}).diff_trajectory')
    ctx.count('transitions_splits', 1)
    ctx.count('events_mapped_back', len(orig))
    parts_with_events = sum(1 for r in prow if r)
    return parts, offsets, parts_with_events


def check_jumps_split(tr, j, n, tsplit, ctx, what, wit, default_settings):
    parts_t, offsets, _ = tsplit
    whole = Counter(tuple(int(x) for x in r) for r in j.data[JCOLS].to_numpy())
    T = len(np.asarray(tr.states))
    bins = np.linspace(0, T + 1, n + 1).astype(int)
    # model of the documented behaviour: a jump survives iff both of its events lie in one bin
    inside = [sum(1 for (a, o, d, s, e), c in whole.items() for _ in range(c) if b0 <= s < b1 and b0 <= e - 1 < b1) for b0, b1 in zip(bins[:-1], bins[1:])]
    try:
        parts = j.split(n)
    except ValueError as exc:
        if 'No jumps found' in str(exc):
            ctx.count('jumps_split_no_jumps_in_a_part')
            if default_settings:
                ctx.check(min(inside) == 0, f"{what}: Jumps.split({n}) raised 'No jumps found' although every time bin contains a complete jump (per-bin {inside})", wit)
            return
        ctx.check(False, f'{what}: Jumps.split({n}) raised ValueError: {exc}', wit)
        return
    ctx.check(len(parts) == n, f'{what}: Jumps.split({n}) returned {len(parts)} parts', wit)
    total = 0
    for i, p in enumerate(parts):
        rows = [tuple(int(x) for x in r) for r in p.data[JCOLS].to_numpy()]
        total += len(rows)
        o = offsets[i]
        if o is None:
            ctx.check(False, f'{what}: n={n}: part {i} has jumps {rows[:2]} but no events', wit)
            return
        back = Counter((a, s0, s1, t0 + o, t1 + o) for a, s0, s1, t0, t1 in rows)
        bad = [k for k, v in back.items() if whole.get(k, 0) < v]
        if bad:
            ctx.check(False, f'{what}: n={n}: jump {bad[0]} of part {i} (atom,origin,dest,start,stop in whole-trajectory time) is not a jump of the whole', {**wit, 'whole': sorted(whole)})
            return
        if not all(0 <= t0 < t1 for _, _, _, t0, t1 in rows):
            ctx.check(False, f'{what}: n={n}: part {i} has a jump with negative / unordered re-based times', wit)
            return
    ctx.decided(n)
    ctx.check(total <= j.n_jumps, f'{what}: n={n}: parts hold {total} jumps, the whole only {j.n_jumps}', wit)
    if default_settings:
        ctx.count('jumps_lost_at_part_edges', j.n_jumps - total)
    ctx.count('jumps_splits', 1)
    # rates = consistent with the parts: sum over label pairs of rate x N x part_time x n_parts = jumps in parts
    try:
        rates = j.rates(n)
    except ValueError as exc:
        if 'No jumps found' in str(exc):
            return
        raise
    labels = list(tr.sites.labels)
    uniq = sorted(set(labels))
    part_time = T * tr.diff_trajectory.time_step / n
    s = 0.0
    for la in uniq:
        for lb in uniq:
            s += float(np.atleast_1d(rates.loc[(la, lb)]['rates'])[0])
    implied = s * j.n_floating * part_time * n
    ctx.check(abs(implied - total) <= 1e-6 * max(total, 1) and implied <= j.n_jumps + 1e-6, f'{what}: n={n}: rates() imply {implied!r} jumps in the parts, the parts hold {total}, the whole {j.n_jumps}', wit)
    ctx.count('rates_checked')


def parts_are_frame_ranges(parts, P, ctx, what, wit, label):
    """Each part trajectory must be a contiguous frame range of the source, in order, non-overlapping."""
    T = len(P)
    end = 0
    for i, part in enumerate(parts):
        pp = np.asarray(copy.deepcopy(part).positions)
        L = len(pp)
        found = None
        for s0 in range(end, T - L + 1):
            if L and pp.shape[1:] == P.shape[1:] and float(geom.circ_diff(pp, P[s0 : s0 + L]).max()) <= 1e-9:
                found = s0
                break
        if found is None:
            ctx.check(False, f'{what}: {label}: trajectory of part {i} (length {L}) is not a contiguous frame range of the source starting at or after frame {end}', wit)
            return False
        end = found + L
    ctx.decided()
    return True


def roundtrip_parts(parts, P, ctx, what, wit, label):
    """Every part is a trajectory of its own: switched to displacements and back it still holds its frames."""
    pos = 0
    for pi, part in enumerate(parts):
        before = snap.traj_positions_raw(part)
        L = len(before)
        _ = part.displacements
        after = np.asarray(part.positions)
        ok = after.shape == before.shape and float(geom.circ_diff(after, before).max() if after.size else 0.0) <= 1e-9
        ctx.check(bool(ok), f'{what}: part {pi} of {label} no longer holds its own frames after a displacements -> positions round trip (max circular deviation {float(geom.circ_diff(after, before).max()) if after.shape == before.shape and after.size else float("nan"):.3e})', wit)
        pos += L
    ctx.count('split_parts_round_tripped', len(parts))


def check_trajectory_split(traj, P, ctx, what, rng, wit):
    T = len(P)
    if T < 3:
        return
    if rng.integers(2):
        _ = traj.displacements  # history: the source was last used in displacement representation
        what += ' [source in displacement representation]'
    n = int(rng.integers(1, min(T - 1, 20) + 1))
    eq = bool(rng.integers(2))
    parts = traj.split(n, equal_parts=eq)
    ok = ctx.check(len(parts) == n, f'{what}: Trajectory.split({n}, equal_parts={eq}) returned {len(parts)} parts', wit)
    if not ok:
        return
    end = 0
    lens = []
    ranges = []
    for i, part in enumerate(parts):
        pp = np.asarray(copy.deepcopy(part).positions)
        L = len(pp)
        lens.append(L)
        found = None
        for s0 in range(end, T - L + 1):
            if L and float(geom.circ_diff(pp, P[s0 : s0 + L]).max()) <= 1e-9:
                found = s0
                break
        if found is None:
            ctx.check(False, f'{what}: Trajectory.split({n}, equal_parts={eq}): part {i} (length {L}) is not a contiguous frame range of the source starting at or after frame {end}', wit)
            return
        ranges.append((found, found + L))
        end = found + L
    ctx.decided()
    ctx.check(sum(lens) <= T and all(L >= 1 for L in lens), f'{what}: Trajectory.split: part lengths {lens} exceed the source length {T} or are empty', wit)
    if eq:
        ctx.check(len(set(lens)) == 1, f'{what}: Trajectory.split(equal_parts=True) gave unequal lengths {lens}', wit)
    else:
        gaps = [b[0] - a[1] for a, b in zip(ranges[:-1], ranges[1:])]
        ctx.check(all(g == 0 for g in gaps) and ranges[0][0] == 0 and ranges[-1][1] >= T - 1, f'{what}: Trajectory.split({n}) parts {ranges} do not tile the source of {T} frames (gaps {gaps}; at most the last frame may stay unused)', wit)
    roundtrip_parts(parts, P, ctx, what, wit, f'Trajectory.split({n}, equal_parts={eq})')
    ctx.count('trajectory_splits')


def run_unit(unit, rng, ctx):
    if unit['k'] == 'tsplit':
        return run_tsplit(unit, rng, ctx)
    big = ctx.tier == 'thorough' and unit['i'] % 25 == 0
    T = int(rng.integers(400, 1500)) if big else int(rng.choice([int(rng.integers(4, 30)), int(rng.integers(30, 400))]))
    f = float(rng.choice([1.0, 1.0, 0.5]))
    sys_ = gen.make_site_system(rng, T=T, n_sites=int(rng.integers(3, 8)), n_atoms=int(rng.integers(1, 4)), inner_fraction=f, margin=0.04, p_move=float(rng.choice([0.05, 0.3, 0.6])))
    # force changes at the first and last possible frame for atom 0
    st = sys_.states_true
    what = f'{sys_.kind} T={T} atoms={sys_.n_floating} f={f}'
    wit = {'states': st if st.size < 3000 else st[:200], 'T': T}
    with warnings.catch_warnings():
        warnings.simplefilter('ignore')
        traj = sys_.trajectory()
        P = np.mod(sys_.coords, 1)
        P[P == 1] = 0
        check_trajectory_split(traj, P, ctx, what, rng, wit)
        try:
            tr = sys_.transitions(traj=traj)
        except ValueError as exc:
            if 'need at least one array' in str(exc):
                ctx.count('static_history_no_events')
                ctx.case(None, False)
                return
            raise
        n_events = len(tr.events)
        residence = int(rng.choice([0, 0, 2, 4]))
        default_settings = f == 1.0 and residence == 0
        ctx.count(f'minimal_residence:{residence}')
        custom_rule = unit.get('i', 0) % 4 == 2
        try:
            if custom_rule:
                # a Jumps object built with the caller's own conversion rule (documented argument): only moves that
                # take a single step count; its parts are classified by the same rule
                from gemdat.jumps import Jumps, _generic_transitions_to_jumps

                def direct_only(transitions, minimal_residence=0):
                    df = _generic_transitions_to_jumps(transitions, minimal_residence=minimal_residence)
                    return df[df['stop time'] - df['start time'] == 1].reset_index(drop=True)

                j = Jumps(tr, conversion_method=direct_only, minimal_residence=residence)
                default_settings = False
                ctx.count('jumps_objects_with_a_custom_conversion_rule')
                if len(j.data) == 0:
                    j = None
            else:
                j = tr.jumps(minimal_residence=residence)
        except ValueError as exc:
            if 'No jumps found' not in str(exc):
                raise
            j = None
        if n_events <= 14:
            ns = list(range(1, n_events + 2))
        else:
            ns = sorted({1, 2, int(rng.integers(2, 6)), int(rng.integers(5, 12)), int(rng.integers(2, min(n_events, T) + 1)), n_events})
        multi = 0
        for n in ns:
            if n == ns[0] or rng.integers(3) == 0:
                # history: metric / displacement queries leave the trajectories in displacement representation
                _ = tr.diff_trajectory.displacements if rng.integers(2) else tr.trajectory.distances_from_base_position()
            res = check_transitions_split(tr, n, ctx, what, wit, part_positions=(P, sys_.n_floating))
            if res is None:
                continue
            if n >= 2 and res[2] >= 2:
                multi += 1
            if j is not None:
                check_jumps_split(tr, j, n, res, ctx, what, wit, default_settings)
            ctx.case(signature(np.asarray(tr.states), n), n >= 2 and res[2] >= 2, sample={'lattice': sys_.kind, 'T': T, 'atoms': sys_.n_floating, 'events': n_events, 'n_parts': n, 'parts_with_events': res[2], 'event_offsets_of_parts': res[1]})
            # a part is itself a Transitions object: splitting it again obeys the same laws
            if n >= 2 and rng.integers(2):
                cands = [p for p in res[0] if len(p.events) >= 2 and len(np.asarray(p.states)) >= 4]
                if cands:
                    part = cands[int(rng.integers(len(cands)))]
                    n2 = int(rng.integers(2, min(len(part.events), len(np.asarray(part.states)) - 1, 5) + 1)) if min(len(part.events), len(np.asarray(part.states)) - 1) >= 2 else 1
                    if check_transitions_split(part, n2, ctx, what + f' [a part of split({n}) split again]', wit) is not None:
                        ctx.count('nested_splits')
        # a Transitions object built with the public constructor whose diffusing-species trajectory is not the plain
        # species filter of its full trajectory (here: rigidly displaced by a constant vector, as after a manual
        # re-centring): the parts carry frame ranges of THAT trajectory
        if n_events >= 2 and T >= 6 and rng.integers(2):
            from gemdat.transitions import Transitions

            off = rng.uniform(0.05, 0.45, size=(1, 1, 3))
            Pd = np.mod(P[:, : sys_.n_floating] + off, 1)
            diff2 = gen.make_trajectory(sys_.matrix, list(tr.diff_trajectory.species), Pd, time_step=sys_.time_step, metadata={'temperature': sys_.temperature})
            tr3 = Transitions(trajectory=tr.trajectory, diff_trajectory=diff2, sites=tr.sites, events=tr.events.copy(), states=np.asarray(tr.states).copy(), inner_states=np.asarray(tr.inner_states).copy())
            n4 = int(rng.integers(2, min(n_events, T - 1, 5) + 1)) if min(n_events, T - 1) >= 2 else 1
            Pd[Pd == 1] = 0
            try:
                parts4 = tr3.split(n4)
            except (ValueError, IndexError):
                parts4 = None
            if parts4 is not None:
                parts_are_frame_ranges([p_.diff_trajectory for p_ in parts4], Pd, ctx, what + ' [diffusing-species trajectory displaced by a constant vector]', wit, f'Transitions.split({n4}).diff_trajectory')
                parts_are_frame_ranges([p_.trajectory for p_ in parts4], P, ctx, what + ' [diffusing-species trajectory displaced by a constant vector]', wit, f'Transitions.split({n4}).trajectory')
                ctx.count('splits_of_objects_with_an_independent_diffusing_trajectory')
        # the same history with its event table presented differently (sorted by time instead of by atom; row
        # labels kept from the old order, offset, or with gaps): a Transitions object built from it splits alike
        if n_events >= 2:
            from gemdat.transitions import Transitions

            ev = tr.events
            how = str(rng.choice(['by_time_kept_labels', 'by_time_fresh_labels', 'offset_labels', 'shuffled_kept_labels']))
            if how == 'by_time_kept_labels':
                ev2 = ev.sort_values(['time', 'atom index'], kind='stable')
            elif how == 'by_time_fresh_labels':
                ev2 = ev.sort_values(['time', 'atom index'], kind='stable').reset_index(drop=True)
            elif how == 'offset_labels':
                ev2 = ev.copy()
                ev2.index = ev2.index + int(rng.integers(1, 500))
            else:
                ev2 = ev.sample(frac=1.0, random_state=int(rng.integers(2**31)))
            extra_ = int(rng.integers(3))
            if extra_ == 1:
                # the named columns in another order
                ev2 = ev2[[str(c_) for c_ in rng.permutation(list(ev2.columns))]]
                how += '+columns_permuted'
            elif extra_ == 2:
                # a further (bookkeeping) column appended by the caller; 'time' is no longer the last column
                ev2 = ev2.copy()
                ev2['stop time'] = ev2['time'] + 1
                how += '+extra_column'
            tr2 = Transitions(trajectory=tr.trajectory, diff_trajectory=tr.diff_trajectory, sites=tr.sites, events=ev2, states=np.asarray(tr.states).copy(), inner_states=np.asarray(tr.inner_states).copy())
            n3 = int(rng.integers(2, min(n_events, T - 1, 6) + 1)) if min(n_events, T - 1) >= 2 else 1
            if check_transitions_split(tr2, n3, ctx, what + f' [event table {how}]', wit) is not None:
                ctx.count(f'event_table_presentation:{how}')
    sta = np.asarray(tr.states)
    ctx.count('systems')
    ctx.count('events_at_first_frame', int(np.sum(sta[0] != sta[1])))
    ctx.count('events_at_last_possible_frame', int(np.sum(sta[-1] != sta[-2])))
