"""C12 — collective jumps are exactly the close-in-time / close-in-space pairs of different atoms."""
from __future__ import annotations

import math
import warnings

import numpy as np

from .. import gen, geom, models
from ..core import signature
from ..monitor import Monitor

ID = 'C12'
LEVEL = 'exploration'
RULE = (
    'cases: (i) margin-controlled pipeline systems whose hop histories contain long excursions through no-site, '
    'queried through Jumps.collective(max_dist) (window = ceil(1/(attempt frequency x time step)), checked); (ii) the '
    'same Jumps handed to the public Collective(...) constructor with windows 1-50 and cut-offs around the site '
    'separations; (iii) arbitrary jump tables (up to 60 / 300 rows: 2-6 atoms, transit times 1-300 frames so that '
    'long-transit jumps overlap many others, simultaneous jumps, equal stop times, same-atom neighbours) injected '
    'through the public Jumps(transitions, conversion_method=...) parameter, presented in different row orders (shuffled, chronological, grouped by atom, reverse) and with different row labels (0..n-1, labels kept from another order, offset, with gaps).  Oracle: O(n^2) pair enumeration with '
    'image-enumeration distances.  Non-trivial = the model finds at least one collective pair and at least one jump '
    'whose transit exceeds the window; distinct = SHA-1 of (jump table, sites, window, cut-off).'
)
RULE += ' Added in rounds 5-10: injected tables in 5 row orders, 4 kinds of row labels and permuted column orders; cut-offs 0, negative, 1e-9; windows 0 and negative.'
RULE += ' Round 16: windows as large as the integer range (sys.maxsize, int64 max) for the directly constructed Collective.'
RULE += ' Round 15: the reference window comes from an independent copy of the diffusing atoms; the whole system is asked for its attempt frequency first in half of the cases.'
RULE += ' Round 14: 12 (600) strictly periodic hopping runs whose attempt period is an exact whole number of time steps: window = that number, pairs recomputed with it.'
RULE += ' Round 12: a quarter of the cut-offs lie 1e-10..1e-7 A above or below one of the site-site distances.'
ASSUMPTIONS = [
    'cut-offs are kept 1e-6 A away from every site-site distance (the comparison is strict <)',
    'the attempt frequency entering the default window is read from the real TrajectoryMetrics',
]
N_CASES = {'quick': 330, 'thorough': 25000}
BUDGET_S = {'quick': 220, 'thorough': 3600}
COLS = ['atom index', 'start site', 'destination site', 'start time', 'stop time']

_mon = Monitor()


def units(tier):
    # 'periodic': strictly periodic hopping, for which the attempt period is (often) an exact whole number of time steps
    return [{'k': 'rand', 'i': i} for i in range(N_CASES[tier])] + [{'k': 'periodic', 'i': i} for i in range(12 if tier == 'quick' else 600)]


def run_periodic(unit, rng, ctx):
    """Atoms hopping back and forth between two sites with a fixed period: 1 / (attempt frequency x time step) is an
    exact integer for many of these runs; the correlation window is then that integer (its ceiling), not one more."""
    from gemdat.metrics import TrajectoryMetrics
    from pymatgen.core import Lattice, Structure

    lens = rng.uniform(7.0, 10.0, size=3)
    m = np.diag(lens)
    pat = [[0, 1, 1, 0], [0, 0, 1, 1, 1, 1, 0, 0], [0, 1, 1, 1, 1, 0, 0, 0], [1, 1, 0, 0]][int(rng.integers(4))]
    P = len(pat)
    T = 8 * int(rng.integers(3, 16))
    dt = float(rng.choice([1e-15, 2e-15, 5e-16]))
    n_at = int(rng.integers(2, 4))
    sites, cols = [], []
    for a_ in range(n_at):
        pa = np.array([0.1 + 0.3 * a_, 0.15 + 0.2 * a_, 0.2])
        pb = pa + np.array([0.0, 0.0, 2.0 / lens[2]])
        sites += [pa, pb]
        ph = int(rng.integers(P)) if a_ else 0
        st = np.array([pat[(t_ + ph) % P] for t_ in range(T)])
        cols.append(np.where(st[:, None] == 0, pa, pb))
    X = np.stack(cols, axis=1)
    traj = gen.make_trajectory(m, gen.species_objects(['Li'] * n_at), X, time_step=dt, metadata={'temperature': 500.0}, presentation='plain')
    struct = Structure(lattice=Lattice(m), species=['Li'] * len(sites), coords=np.array(sites), labels=['A'] * len(sites))
    with warnings.catch_warnings():
        warnings.simplefilter('ignore')
        tr = traj.transitions_between_sites(sites=struct, floating_specie='Li', site_radius=0.6)
        j = tr.jumps()
        freq = float(TrajectoryMetrics(tr.diff_trajectory).attempt_frequency()[0])
        x = 1.0 / (freq * dt)
        coll = j.collective(max_dist=float(rng.uniform(1.0, 5.0)))
    what = f'periodic hopping pattern {pat} T={T} dt={dt} atoms={n_at}: 1/(f dt) = {x!r}'
    ctx.check(coll.max_steps == math.ceil(x), f'{what}: correlation window {coll.max_steps} != ceil(1/(f dt)) = {math.ceil(x)}')
    ctx.count('periodic_hopping_runs')
    ctx.count('runs_whose_attempt_period_is_an_exact_number_of_time_steps', x == round(x))
    rows = [tuple(int(v) for v in r) for r in j.data[COLS].to_numpy()]
    want_idx = models.collective_pairs(rows, np.array(sites), m, math.ceil(x), float(coll.max_dist))
    got = {frozenset((row_key(a), row_key(b))) for a, b in coll.collective}
    want = {frozenset((rows[i_], rows[j_])) for i_, j_ in want_idx}
    ctx.check(got == want, f'{what}: {len(got)} collective pairs reported, {len(want)} pairs lie within the window {math.ceil(x)} and the cut-off {coll.max_dist:.3f} ({len(got - want)} spurious, {len(want - got)} missing)')
    ctx.case(f'periodic{unit["i"]}', x == round(x), sample={'kind': 'periodic', 'pattern': pat, 'T': T, 'dt': dt, 'attempt_period_in_steps': x})


def setup(ctx):
    from gemdat.collective import Collective
    from gemdat.jumps import Jumps

    _mon.attach(Collective, '__init__', label='Collective.__init__')
    from .. import retain as _rt

    _mon.attach(Jumps, 'collective', label='Jumps.collective', retain=_rt.collective)


def teardown(ctx):
    _mon.flush_counts(ctx)
    _mon.detach_all()


def row_key(ev):
    return tuple(int(ev[c]) for c in COLS)


NEAR = [0]


def pick_cutoff(rng, dsite):
    vals = dsite[np.triu_indices(len(dsite), 1)]
    if rng.uniform() < 0.1:
        # degenerate cut-offs: nothing is closer than 0 or a negative distance; 1e-9 admits only shared sites
        return float(rng.choice([0.0, -1.0, 1e-9]))
    if rng.uniform() < 0.25 and len(vals):
        # a cut-off a hair above / below one of the site-site distances (1e-10 .. 1e-7 A away, far outside the
        # rounding of a double-precision distance, which is ~1e-14 A here): the pair just qualifies / just does not
        v = float(vals[int(rng.integers(len(vals)))])
        c = v + float(rng.choice([-1.0, 1.0])) * 10.0 ** float(rng.uniform(-10, -7))
        if np.min(np.abs(vals - c)) > 2e-11 and abs(c) > 1e-6:
            NEAR[0] += 1
            return c
    for _ in range(100):
        c = float(rng.uniform(0.5, 1.6) * np.median(vals)) if rng.uniform() < 0.8 else float(rng.uniform(0.5, 4.0))
        if np.min(np.abs(vals - c)) > 1e-6 and abs(c) > 1e-6:
            return c
    return float(np.max(vals) + 1.0)


def check_collective(coll, rows, sys_, window, cutoff, ctx, what, wit):
    """rows: list of (atom, origin, dest, start, stop) = the jump table the object was built from."""
    want_idx = models.collective_pairs(rows, sys_.site_frac, sys_.matrix, window, cutoff)
    want = {frozenset((rows[i], rows[j])) for i, j in want_idx}
    got_list = [frozenset((row_key(a), row_key(b))) for a, b in coll.collective]
    got = set(got_list)
    wit = {**wit, 'jumps(atom,origin,dest,start,stop)': rows, 'window': window, 'cutoff': cutoff}
    ok = True
    missing = want - got
    extra = got - want
    if missing:
        p = sorted(tuple(sorted(x)) for x in missing)[0]
        ok = ctx.check(False, f'{what}: qualifying pair {p} not reported ({len(missing)} missing of {len(want)})', wit)
    else:
        ctx.decided()
    if extra:
        p = sorted(tuple(sorted(x)) for x in extra)[0]
        a, b = p if len(p) == 2 else (p[0], p[0])
        reason = 'same atom' if a[0] == b[0] else ('outside window' if (b[3] - a[4] > window or a[3] - b[4] > window) else 'sites farther than the cut-off')
        ok = ctx.check(False, f'{what}: reported pair {p} does not qualify ({reason})', wit) and ok
    else:
        ctx.decided()
    ok = ctx.check(len(got_list) == len(got), f'{what}: a pair is reported more than once ({len(got_list)} entries, {len(got)} distinct)', wit) and ok
    cj = [frozenset([((int(a[0]), int(a[1])), 0), ((int(b[0]), int(b[1])), 1)]) for a, b in coll.coll_jumps]
    want_cj = [frozenset([((row_key(a)[1], row_key(a)[2]), 0), ((row_key(b)[1], row_key(b)[2]), 1)]) for a, b in coll.collective]
    ok = ctx.check(cj == want_cj, f'{what}: coll_jumps does not list the (origin, destination) site pairs of the reported collective pairs', wit) and ok
    involved = {r for p in want for r in p}
    n = len(rows)
    ok = ctx.check(coll.n_solo_jumps + coll.n_coll_jumps == n, f'{what}: n_solo ({coll.n_solo_jumps}) + n_coll ({coll.n_coll_jumps}) != n_jumps ({n})', wit) and ok
    if not missing and not extra:
        ok = ctx.check(coll.n_coll_jumps == len(involved), f'{what}: n_coll_jumps={coll.n_coll_jumps} but {len(involved)} jumps take part in a collective pair', wit) and ok
    ctx.count('pairs_in_model', len(want))
    ctx.count('jump_pairs_compared', n * (n - 1) // 2)
    long_transit = sum(1 for r in rows if r[4] - r[3] > window)
    ctx.count('long_transit_jumps(>window)', long_transit)
    return len(want), long_transit


def random_table(rng, n_sites, n_rows, n_atoms, tmax):
    rows = set()
    tries = 0
    while len(rows) < n_rows and tries < 20 * n_rows:
        tries += 1
        a = int(rng.integers(n_atoms))
        o, d = (int(x) for x in rng.choice(n_sites, size=2, replace=False))
        u = rng.uniform()
        transit = 1 if u < 0.5 else (int(rng.integers(2, 12)) if u < 0.8 else int(rng.integers(12, 300)))
        s = int(rng.integers(0, tmax))
        if rows and rng.uniform() < 0.25:
            # simultaneous / equal stop times with an existing row
            ref = list(rows)[int(rng.integers(len(rows)))]
            s = ref[4] - transit if rng.integers(2) else ref[3]
            if s < 0:
                continue
        rows.add((a, o, d, s, s + transit))
    return sorted(rows, key=lambda r: (r[0], r[3], r[4], r[1], r[2]))


def run_unit(unit, rng, ctx):
    if unit.get('k') == 'periodic':
        return run_periodic(unit, rng, ctx)
    import pandas as pd
    from gemdat.collective import Collective
    from gemdat.jumps import Jumps
    from gemdat.metrics import TrajectoryMetrics

    sys_ = gen.make_site_system(rng, T=int(rng.integers(30, 120)), n_sites=int(rng.integers(4, 9)), n_atoms=int(rng.integers(2, 5)), inner_fraction=1.0, margin=0.04, p_move=float(rng.choice([0.1, 0.3, 0.5])), face_sites=0.4)
    dsite = geom.min_image(sys_.matrix, sys_.site_frac, sys_.site_frac)
    what = f'{sys_.kind}{"/rot" if sys_.rotated else ""} sites={len(sys_.site_frac)}'
    wit = {'matrix': sys_.matrix, 'site_frac': sys_.site_frac}
    with warnings.catch_warnings():
        warnings.simplefilter('ignore')
        try:
            custom_sites = None
            if unit['i'] % 3 == 0:
                from pymatgen.core import Lattice, Structure

                custom_sites = Structure(lattice=Lattice(sys_.matrix * float(rng.choice([0.93, 1.04, 1.3]))), species=['Li'] * len(sys_.site_frac), coords=sys_.site_frac, labels=list(sys_.labels))
                ctx.count('sites_given_in_a_different_cell')
            tr = sys_.transitions(sites=custom_sites)
        except ValueError as exc:
            if 'need at least one array' in str(exc):
                ctx.count('static_history_no_events')
                ctx.case(None, False)
                return
            raise
        n_pairs = n_long = 0
        sig_rows = []
        # (i) + (ii): the pipeline's own jumps
        try:
            j = tr.jumps()
        except ValueError as exc:
            if 'No jumps found' not in str(exc):
                raise
            j = None
        if j is not None and j.n_jumps >= 2:
            rows = [tuple(int(x) for x in r) for r in j.data[COLS].to_numpy()]
            cutoff = pick_cutoff(rng, dsite)
            # the reference attempt frequency comes from an independent copy of the diffusing atoms' motion (own arrays,
            # own metadata); in half of the cases the whole system's attempt frequency (framework vibrations included)
            # is asked for first, as an analysis script that prints both would
            from gemdat import Trajectory as _Tr

            dtr_ = tr.diff_trajectory
            twin_ = _Tr(species=list(dtr_.species), coords=np.array(dtr_.positions), lattice=dtr_.get_lattice(), time_step=dtr_.time_step, metadata={'temperature': float(dtr_.metadata.get('temperature', 300.0))})
            freq = float(TrajectoryMetrics(twin_).attempt_frequency()[0])
            if unit['i'] % 2 == 0:
                _ = TrajectoryMetrics(tr.trajectory).attempt_frequency()
                ctx.count('whole_system_attempt_frequency_asked_before_collective')
            if np.isfinite(freq) and freq > 0:
                coll = j.collective(max_dist=cutoff) if rng.integers(2) else j.collective(cutoff)  # the documented positional form
                w = math.ceil(1.0 / (freq * sys_.time_step))
                ctx.check(coll.max_steps == w, f'{what}: correlation window {coll.max_steps} != ceil(1/(f dt)) = {w}', wit)
                a, b = check_collective(coll, rows, sys_, coll.max_steps, cutoff, ctx, what + ' [Jumps.collective]', wit)
                n_pairs += a
                n_long += b
                ctx.count('via_Jumps.collective')
                # the convenience properties use the default cut-off (1 A)
                want_def = models.collective_pairs(rows, sys_.site_frac, sys_.matrix, coll.max_steps, 1.0)
                dvals = dsite[np.triu_indices(len(dsite), 1)]
                if np.min(np.abs(dvals - 1.0)) > 1e-6:
                    n_solo_want = len(rows) - len({k_ for pr in want_def for k_ in pr})
                    ctx.check(j.n_solo_jumps == n_solo_want and abs(j.solo_fraction - n_solo_want / len(rows)) <= 1e-12, f'{what}: Jumps.n_solo_jumps={j.n_solo_jumps}, solo_fraction={j.solo_fraction!r}; enumeration with the default 1 A cut-off gives {n_solo_want} of {len(rows)}', wit)
                # history: the same Jumps object asked again with another cut-off, then with the first one
                cut_b = pick_cutoff(rng, dsite)
                coll_b = j.collective(max_dist=cut_b)
                check_collective(coll_b, rows, sys_, coll_b.max_steps, cut_b, ctx, what + ' [Jumps.collective, second cut-off on the same object]', wit)
                coll_c = j.collective(max_dist=cutoff)
                check_collective(coll_c, rows, sys_, coll_c.max_steps, cutoff, ctx, what + ' [Jumps.collective, first cut-off again]', wit)
            w2 = int(rng.integers(1, 51))
            if unit['i'] % 6 == 5:
                # "no limit" spelled as the largest integer: every pair of jumps is close enough in time
                import sys as _sys

                w2 = [_sys.maxsize, int(np.iinfo(np.int64).max), 2**31 - 1, 10**12][int(rng.integers(4))]
                ctx.count('windows_as_large_as_the_integer_range')
            c2 = pick_cutoff(rng, dsite)
            coll2 = Collective(jumps=j, sites=tr.sites, lattice=tr.diff_trajectory.get_lattice(), max_steps=w2, max_dist=c2)
            a, b = check_collective(coll2, rows, sys_, w2, c2, ctx, what + f' [Collective(max_steps={w2})]', wit)
            n_pairs += a
            n_long += b
            sig_rows.append(rows)
            ctx.count('via_Collective_constructor')
        # (iii): arbitrary jump tables through the public conversion_method parameter
        big = ctx.tier == 'thorough' and unit['i'] % 20 == 0
        n_rows = int(rng.integers(40, 300)) if big else int(rng.integers(2, 60))
        table = random_table(rng, len(sys_.site_frac), n_rows, int(rng.integers(2, 7)), int(rng.choice([30, 200, 2000])))
        if len(table) >= 2:
            df = pd.DataFrame(table, columns=COLS)
            df = df.sample(frac=1.0, random_state=int(rng.integers(2**31))).reset_index(drop=True)
            # presentation of the table: row order (shuffled / chronological / grouped by atom) and row labels
            # (default 0..n-1, labels kept from another order, offset, with gaps)
            order = str(rng.choice(['shuffled', 'by_stop', 'by_stop_start', 'by_atom', 'by_start_desc']))
            if order == 'by_stop':
                df = df.sort_values(['stop time'], kind='stable')
            elif order == 'by_stop_start':
                df = df.sort_values(['stop time', 'start time'], kind='stable')
            elif order == 'by_atom':
                df = df.sort_values(['atom index', 'start time'], kind='stable')
            elif order == 'by_start_desc':
                df = df.sort_values(['start time'], ascending=False, kind='stable')
            index = str(rng.choice(['range', 'kept', 'offset', 'gaps']))
            if index == 'range':
                df = df.reset_index(drop=True)
            elif index == 'offset':
                df = df.reset_index(drop=True)
                df.index = df.index + int(rng.integers(1, 1000))
            elif index == 'gaps':
                df = df.reset_index(drop=True)
                df.index = np.sort(rng.choice(5 * len(df), size=len(df), replace=False))
            if rng.integers(3) == 0:
                # the same table with its columns in another order (columns are addressed by name)
                df = df[[COLS[i_] for i_ in rng.permutation(len(COLS))]]
                ctx.count('injected_tables_with_permuted_columns')
            ctx.count(f'injected_table_order:{order}')
            ctx.count(f'injected_table_index:{index}')
            jj = Jumps(tr, conversion_method=lambda transitions, minimal_residence=0, _df=df: _df.copy())
            w3 = int(rng.choice([1, 2, 5, 10, 25, 50, 120, 0, -1, -4, -9]))  # also degenerate windows: 0 and negative
            c3 = pick_cutoff(rng, dsite)
            coll3 = Collective(jumps=jj, sites=tr.sites, lattice=tr.diff_trajectory.get_lattice(), max_steps=w3, max_dist=c3)
            a, b = check_collective(coll3, table, sys_, w3, c3, ctx, what + f' [injected table n={len(table)} w={w3}]', wit)
            n_pairs += a
            n_long += b
            sig_rows.append(table)
            ctx.count('via_injected_table')
    ctx.count(f'lattice:{sys_.kind}')
    ctx.count('cutoffs_within_1e-7_A_of_a_site_distance', NEAR[0])
    NEAR[0] = 0
    ctx.case(signature(sig_rows, sys_.site_frac, sys_.matrix), n_pairs > 0 and n_long > 0, sample={'lattice': sys_.kind, 'sites': len(sys_.site_frac), 'pipeline_jumps': j.n_jumps if j is not None else 0, 'injected_rows': len(table), 'collective_pairs_in_model': n_pairs, 'long_transit_jumps': n_long, 'first_rows(atom,origin,dest,start,stop)': table[:5]})
