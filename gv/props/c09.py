"""C09 — free energy is -kT ln(probability) and stays finite."""
from __future__ import annotations

import warnings

import numpy as np

from .. import geom
from ..core import signature
from ..monitor import Monitor

ID = 'C09'
LEVEL = 'exploration'
RULE = (
    'cases: random non-negative density grids (2-8 voxels per axis, unequal axes) with integer counts, float '
    'densities, densities whose total is 1 or within 1e-12 .. 3e-3 of 1, heavy-tailed counts up to 1e9, 0-95 % unvisited voxels, down to a single visited voxel (p = 1); '
    'temperatures log-uniform in [1e-3, 1e6] K (kT from 1e-7 to 86 eV); default and explicit graph thresholds; half of the volumes come '
    'from the real trajectory_to_volume; density arrays in C order, Fortran order, as transposed / axis-swapped / strided / reversed views, dtypes int64 / int32 / float32 / float64.  Oracle: direct formulas with the exact SI value of k_B in eV/K, all '
    'voxel pairs for monotonicity (via sorting).  Non-trivial = at least 2 visited and 1 unvisited voxel; distinct '
    '= SHA-1 of (grid, temperature).'
)
RULE += ' Added in rounds 6-8: nearly normalised densities; -0.0 voxels; another temperature asked of the same Volume; result retention.'
RULE += ' Round 15: copy / deepcopy / pickle copies of the density and the free-energy volume hold the same numbers.'
RULE += ' Round 14: the same density multiplied by 2^k, k in {-1040..900} (subnormal to huge totals), has the same free energy.'
RULE += ' Round 13: the call is made under different floating-point error states and warning filters of the caller (np.errstate / np.seterr ignore, warnings ignored / recorded).'
ASSUMPTIONS = ['k_B = 1.380649e-23 / 1.602176634e-19 eV/K (exact SI); relative tolerance 1e-9']
N_CASES = {'quick': 640, 'thorough': 100000}
BUDGET_S = {'quick': 200, 'thorough': 3600}
KB_EV = 1.380649e-23 / 1.602176634e-19

_mon = Monitor()


def units(tier):
    return [{'k': 'rand', 'i': i} for i in range(N_CASES[tier])]


def setup(ctx):
    import gemdat.path as gp
    from gemdat.volume import FreeEnergyVolume, Volume

    from .. import retain as _rt

    _mon.attach(Volume, 'get_free_energy', label='Volume.get_free_energy', retain=_rt.volume, scribble=True)
    _mon.attach(FreeEnergyVolume, 'free_energy_graph', label='FreeEnergyVolume.free_energy_graph')
    _mon.attach(gp, 'free_energy_graph', label='path.free_energy_graph')


def teardown(ctx):
    _mon.flush_counts(ctx)
    _mon.detach_all()


def run_unit(unit, rng, ctx):
    from gemdat.volume import Volume
    from pymatgen.core import Lattice

    kind, rot, m = geom.random_lattice(rng, lo=3.0, hi=8.0)
    shape = tuple(int(x) for x in rng.integers(2, 8 if ctx.tier == 'quick' else 9, size=3))
    mode = str(rng.choice(['int', 'float', 'heavy', 'single', 'traj', 'prob']))
    if mode == 'traj':
        from .. import gen

        T, N = int(rng.integers(1, 40)), int(rng.integers(1, 4))
        traj = gen.make_trajectory(m, gen.species_objects(['Li'] * N), rng.uniform(0, 1, size=(T, N, 3)))
        vol = traj.to_volume(resolution=float(np.linalg.norm(m, axis=1).min() / rng.uniform(2.1, 5.9)))
        data = np.asarray(vol.data)
    else:
        if mode == 'int':
            data = rng.integers(0, 20, size=shape)
        elif mode == 'float':
            data = rng.uniform(0, 5, size=shape)
        elif mode == 'prob':
            # a density that is (nearly) a probability already: total exactly 1, or off by 1e-12 .. 3e-3
            data = rng.uniform(0, 1, size=shape) ** 3
            data = data / data.sum()
            scale_ = float(rng.choice([1.0, 1 + 10.0 ** (-float(rng.uniform(2.5, 12))), 1 - 10.0 ** (-float(rng.uniform(2.5, 12)))]))
            data = data * scale_
            ctx.count('densities_with_total_within_1e-2_of_one_but_not_one', abs(data.sum() - 1) > 0)
        elif mode == 'heavy':
            data = np.floor(np.exp(rng.uniform(0, 20, size=shape))).astype(np.int64)
        else:
            data = np.zeros(shape, dtype=int)
            data[tuple(int(rng.integers(s)) for s in shape)] = int(rng.integers(1, 1000))
        if mode != 'single':
            data = np.where(rng.uniform(size=shape) < rng.choice([0.0, 0.3, 0.8, 0.95]), 0, data)
            if not data.any():
                data[tuple(int(rng.integers(s)) for s in shape)] = 1
        dt_ = [None, None, np.float32, np.int32, np.float64, np.uint8, np.int16, np.uint16, np.int8][int(rng.integers(9))]
        if dt_ in (np.uint8, np.int8, np.int16, np.uint16) and data.max() > np.iinfo(dt_).max:
            data = np.minimum(data, np.iinfo(dt_).max)
        if dt_ is not None:
            data = data.astype(dt_)
            if not data.any():
                data[tuple(int(rng.integers(s_)) for s_ in data.shape)] = 1
        if data.dtype.kind == 'f' and rng.integers(2) and (data == 0).any():
            # empty voxels stored as -0.0 (rounded ringing of a smoothed density, "-0.00000E+00" in text files)
            data = np.where((data == 0) & (rng.uniform(size=data.shape) < 0.6), -0.0, data).astype(data.dtype)
            ctx.count('densities_with_negative_zero_voxels', bool(np.signbit(data[data == 0]).any()))
        # memory layout: C order, Fortran order, transposed / axis-swapped views, strided and reversed views
        layout = str(rng.choice(['C', 'C', 'F', 'T', 'swap', 'stride', 'rev']))
        if layout == 'F':
            data = np.asfortranarray(data)
        elif layout == 'T':
            data = np.ascontiguousarray(data.T).T
        elif layout == 'swap':
            ax = [int(x) for x in rng.permutation(3)]
            data = np.ascontiguousarray(np.transpose(data, np.argsort(ax))).transpose(ax)
        elif layout == 'stride':
            big = np.zeros(tuple(2 * s_ for s_ in data.shape), dtype=data.dtype)
            big[::2, ::2, ::2] = data
            data = big[::2, ::2, ::2]
        elif layout == 'rev':
            data = np.ascontiguousarray(data[::-1, :, ::-1])[::-1, :, ::-1]
        ctx.count(f'memory_layout:{layout}')
        ctx.count('non_C_contiguous_density', not data.flags['C_CONTIGUOUS'])
        vol = Volume(data=data, lattice=Lattice(m))
    temp = float(np.exp(rng.uniform(np.log(1e-3), np.log(1e6))))
    what = f'grid {data.shape} mode={mode} T={temp:.4g} K'
    wit = {'data': data, 'temperature': temp}
    # the floating-point error state and the warning filters of the calling script are part of the environment: numpy's
    # log(0) warning may be silenced (np.errstate / np.seterr 'ignore'), shown always, or the call may sit in a
    # catch_warnings block of the caller; the grid must be the same finite grid in each
    env_mode = ['default', 'default', 'errstate_ignore', 'seterr_all_ignore', 'warnings_ignored', 'warnings_recorded'][int(rng.integers(6))]
    if env_mode == 'errstate_ignore':
        with np.errstate(divide='ignore', invalid='ignore'):
            F = vol.get_free_energy(temperature=temp)
    elif env_mode == 'seterr_all_ignore':
        old_err = np.seterr(all='ignore')
        try:
            F = vol.get_free_energy(temperature=temp)
        finally:
            np.seterr(**old_err)
    elif env_mode == 'warnings_ignored':
        with warnings.catch_warnings():
            warnings.simplefilter('ignore')
            F = vol.get_free_energy(temperature=temp)
    elif env_mode == 'warnings_recorded':
        with warnings.catch_warnings(record=True):
            warnings.simplefilter('always')
            F = vol.get_free_energy(temperature=temp)
    else:
        F = vol.get_free_energy(temperature=temp)
    ctx.count(f'caller_environment:{env_mode}')
    what += '' if env_mode == 'default' else f' [{env_mode}]'
    Fd = np.asarray(F.data)
    visited = data > 0
    p = data / data.sum()
    ctx.check(Fd.shape == data.shape and bool(np.all(np.isfinite(Fd))), f'{what}: free-energy grid contains NaN/inf or has shape {Fd.shape}', wit)
    if Fd.shape != data.shape or not np.all(np.isfinite(Fd)):
        ctx.case(None, False)
        return
    kT = KB_EV * temp
    # the probability view the free energy is defined on
    pr_ = np.asarray(vol.probability(), dtype=float)
    ctx.check(pr_.shape == data.shape and np.allclose(pr_, p, rtol=(2e-6 if np.asarray(vol.data).dtype == np.float32 else 1e-12), atol=0) and abs(pr_.sum() - 1) <= (1e-4 if np.asarray(vol.data).dtype == np.float32 else 1e-9), f'{what}: probability() is not density / total density (sum {pr_.sum()!r})', wit)
    want = -kT * np.log(p[visited].astype(float))
    # single-precision densities give single-precision free energies
    single = np.asarray(vol.data).dtype == np.float32 or Fd.dtype == np.float32
    rt = 2e-5 if single else 1e-9
    ctx.count(f'density_dtype:{np.asarray(vol.data).dtype}')
    ctx.check(np.allclose(Fd[visited], want, rtol=rt, atol=(1e-6 if single else 1e-12) * kT), f'{what}: F != -k_B T ln(p) on visited voxels (max dev {np.abs(Fd[visited] - want).max():.3e} eV)', wit)
    back = np.exp(-Fd[visited] / kT)
    ctx.check(np.allclose(back, p[visited], rtol=1e-4 if single else 1e-7, atol=0) and abs(back.sum() - 1) <= (1e-4 if single else 1e-7), f'{what}: exp(-F/kT) does not recover the probabilities (sum {back.sum()!r})', wit)
    # a denser voxel never has a higher free energy (all pairs, by sorting)
    order = np.argsort(data.ravel(), kind='stable')
    fs = Fd.ravel()[order]
    ds = data.ravel()[order]
    viol = np.nonzero((np.diff(fs) > (1e-5 if single else 1e-12) * np.maximum(1, np.abs(fs[:-1]))) & (np.diff(ds) > 0))[0]
    ctx.check(len(viol) == 0, f'{what}: a denser voxel has a higher free energy (density {ds[viol[0]] if len(viol) else None} -> {ds[viol[0] + 1] if len(viol) else None})', wit)
    if (~visited).any():
        fu = Fd[~visited]
        ctx.check(bool(np.all(fu > 1e20) and np.all(fu > Fd[visited].max())), f'{what}: unvisited voxels have energies {fu.min()!r}..{fu.max()!r}, not prohibitively large', wit)
    # graph nodes: only visited voxels, for the default and for explicit thresholds
    vis_set = {tuple(int(x) for x in ix) for ix in np.argwhere(visited)}
    G = F.free_energy_graph()
    ctx.check(set(G.nodes) == vis_set, f'{what}: default free-energy graph has {len(G.nodes)} nodes, {len(vis_set)} voxels were visited (unvisited included: {len(set(G.nodes) - vis_set)})', wit)
    thr = float(rng.choice([1e7, float(np.quantile(Fd[visited], rng.uniform(0.2, 1.0))) + 1e-12, 1e300]))
    G2 = F.free_energy_graph(max_energy_threshold=thr, diagonal=bool(rng.integers(2)))
    # an explicit threshold admits exactly the voxels below it (a user threshold above the sentinel
    # energy of unvisited voxels - 3.4e38 for single-precision grids - admits them by choice)
    want_nodes = {tuple(int(x) for x in ix) for ix in np.argwhere((Fd >= 0) & (Fd < thr))}
    ctx.check(set(G2.nodes) == want_nodes, f'{what}: graph with threshold {thr!r} has nodes {len(G2.nodes)}, expected the {len(want_nodes)} voxels below it', wit)
    for node in list(G.nodes)[:5]:
        ctx.check(G.nodes[node].get('energy') == Fd[node], f'{what}: node {node} carries energy {G.nodes[node].get("energy")!r}, grid says {Fd[node]!r}', wit)
    # history: the same Volume object after its density was edited (in place or reassigned), and asked again
    if unit['i'] % 2 == 0 and int(visited.sum()) >= 3:
        d2 = np.array(vol.data, dtype=float)
        kill = np.argwhere(visited)[:: 2][: max(1, int(visited.sum()) // 3)]
        if unit['i'] % 4 == 0:
            vol.data = d2.copy()
            for ix in kill:
                vol.data[tuple(ix)] = 0
        else:
            for ix in kill:
                d2[tuple(ix)] = 0
            vol.data = d2
        dd = np.asarray(vol.data, dtype=float)
        if dd.sum() > 0:
            F2 = np.asarray(vol.get_free_energy(temperature=temp).data)
            v2 = dd > 0
            w2 = -kT * np.log(dd[v2] / dd.sum())
            ctx.check(bool(np.all(np.isfinite(F2))) and np.allclose(F2[v2], w2, rtol=rt, atol=(1e-6 if single else 1e-12) * kT) and abs(np.exp(-F2[v2] / kT).sum() - 1) <= (1e-4 if single else 1e-7), f'{what}: after the density of the same Volume object was edited, get_free_energy no longer equals -kT ln(p) of the current density (sum exp(-F/kT) = {np.exp(-F2[v2] / kT).sum()!r})', {'data': dd, 'temperature': temp})
            ctx.count('requery_after_density_edit')
    else:
        F3 = np.asarray(vol.get_free_energy(temperature=temp).data)
        ctx.check(np.array_equal(F3, Fd), f'{what}: asking get_free_energy twice gives different grids', wit)
        # the same Volume asked for ANOTHER temperature answers for that temperature
        temp4 = float(temp * rng.uniform(1.5, 4.0))
        F4 = np.asarray(vol.get_free_energy(temperature=temp4).data)
        w4 = -KB_EV * temp4 * np.log(p[visited].astype(float))
        ctx.check(bool(np.all(np.isfinite(F4))) and np.allclose(F4[visited], w4, rtol=rt, atol=(1e-6 if single else 1e-12) * KB_EV * temp4), f'{what}: the same Volume asked again at {temp4:.4g} K does not give -k_B T ln(p) for that temperature (max dev {np.abs(F4[visited] - w4).max():.3e} eV)', wit)
        ctx.count('requery_at_another_temperature')
    # the free energy depends on ratios only: the same density in other units (scaled by a power of two, down to
    # subnormal and up to 1e300-sized numbers; ratios stay exact) has the same free energy
    if unit['i'] % 4 == 2 and float(np.asarray(data, dtype=float).max()) < 2.0**40:
        k_sc = int(rng.choice([-1040, -1030, -1022, -900, -300, 300, 900]))
        if k_sc < -900 and not np.array_equal(np.asarray(data, dtype=float), np.round(np.asarray(data, dtype=float))):
            k_sc = -900  # non-integer densities would lose bits in the subnormal range; integer counts stay exact
        dsc = np.ldexp(np.asarray(data, dtype=float), k_sc)
        with warnings.catch_warnings():
            warnings.simplefilter('ignore')
            Fs = np.asarray(Volume(data=dsc, lattice=Lattice(m)).get_free_energy(temperature=temp).data)
        ctx.check(bool(np.all(np.isfinite(Fs))) and np.allclose(Fs[visited], Fd[visited], rtol=1e-6 if single else 1e-9, atol=(1e-6 if single else 1e-12) * kT) and bool(np.all(Fs[~visited] > Fs[visited].max())), f'{what}: the same density multiplied by 2^{k_sc} gives another free energy (finite: {bool(np.all(np.isfinite(Fs)))}, min {Fs.min()!r}, max dev on visited voxels {np.abs(Fs[visited] - Fd[visited]).max():.3e} eV)', {'data': data, 'scale': f'2^{k_sc}', 'temperature': temp})
        ctx.count('densities_rescaled_by_a_power_of_two(incl. subnormal totals)')
    # copies of the volumes (copy / deepcopy / pickle: checkpointing an analysis, sending it to a worker) hold the
    # same numbers, and the free energy of a copied density is the same grid
    if unit['i'] % 5 == 1:
        import copy
        import pickle

        how_c = str(rng.choice(['copy', 'deepcopy', 'pickle']))
        dup = {'copy': copy.copy, 'deepcopy': copy.deepcopy, 'pickle': lambda o_: pickle.loads(pickle.dumps(o_))}[how_c]
        F_c, vol_c = dup(F), dup(vol)  # a copy of a strided density is contiguous: its total is summed in another order, so the free energies agree to rounding, not bit for bit
        ctx.check(np.array_equal(np.asarray(F_c.data), Fd) and np.asarray(F_c.data).dtype == Fd.dtype, f'{what}: a {how_c} of the free-energy volume holds other numbers (finite: {bool(np.all(np.isfinite(np.asarray(F_c.data))))}, max dev {float(np.nanmax(np.abs(np.asarray(F_c.data, dtype=float) - Fd))):.3e})', wit)
        ctx.check(np.array_equal(np.asarray(vol_c.data), np.asarray(vol.data)) and np.allclose(np.asarray(vol_c.get_free_energy(temperature=temp).data), np.asarray(vol.get_free_energy(temperature=temp).data), rtol=1e-12, atol=1e-12 * kT), f'{what}: a {how_c} of the density volume holds other numbers or gives another free energy than the volume it was copied from', wit)
        ctx.count(f'volumes_copied_by:{how_c}')
    nv = int(visited.sum())
    ctx.count(f'mode:{mode}')
    ctx.count('voxels_checked', data.size)
    ctx.count('unvisited_voxels', int((~visited).sum()))
    ctx.count('single_visited_voxel_cases', nv == 1)
    ctx.case(signature(data, temp), nv >= 2 and (~visited).any(), sample={'grid': list(data.shape), 'mode': mode, 'temperature': temp, 'visited': nv, 'unvisited': int((~visited).sum()), 'F_min': float(Fd.min()), 'F_max_visited': float(Fd[visited].max())})
