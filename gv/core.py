"""Runner, per-shard worker and case context of the GEMDAT runtime-monitoring framework.

A property module (``gv.props.cNN``) provides

    ID, LEVEL ('exploration' | 'fault_enumeration'), RULE (str), ASSUMPTIONS (list[str])
    units(tier) -> list[dict]          deterministic list of work units (one case / one chunk each)
    run_unit(unit, rng, ctx) -> None   execute the real code, feed the monitors, report through ctx
    MIN_DECIDING (optional int)        minimum number of deciding oracle evaluations, else inconclusive

The runner shards the units over subprocesses (fresh interpreter each, so the code under test is
always re-imported from the current working tree), folds the shard results, writes
``/verif/evidence/<ID>.json`` and prints VIOLATION / KNOWN-FINDING / INCONCLUSIVE lines.
"""
from __future__ import annotations

import hashlib
import importlib
import json
import os
import shutil
import subprocess
import sys
import tempfile
import time
import traceback
from collections import Counter

import numpy as np

VERIF = os.path.dirname(os.path.dirname(os.path.abspath(__file__)))
DEFAULT_SRC = '/repo/src'
NCPU = 16


def src_dir() -> str:
    return os.path.abspath(os.environ.get('GV_SRC', DEFAULT_SRC))


def bind_code_under_test() -> str:
    """Put the working tree first on sys.path and verify gemdat is imported from it."""
    src = src_dir()
    if sys.path[0] != src:
        sys.path.insert(0, src)
    os.environ.setdefault('GEMDAT_REPOS_GEMDAT_VERIF', '1')
    import gemdat  # noqa: PLC0415

    got = os.path.abspath(gemdat.__file__)
    if not got.startswith(src + os.sep):
        raise RuntimeError(f'gemdat imported from {got}, expected under {src}')
    return src


def jsonable(x, depth=0):
    """Convert numpy containers to plain JSON (used for samples / witnesses)."""
    if depth > 8:
        return repr(x)
    if isinstance(x, dict):
        return {str(k): jsonable(v, depth + 1) for k, v in x.items()}
    if isinstance(x, (list, tuple, set, frozenset)):
        return [jsonable(v, depth + 1) for v in x]
    if isinstance(x, np.ndarray):
        if x.size > 4000:
            return {'shape': list(x.shape), 'dtype': str(x.dtype), 'head': jsonable(x.ravel()[:200].tolist())}
        return jsonable(x.tolist(), depth + 1)
    if isinstance(x, (np.integer,)):
        return int(x)
    if isinstance(x, (np.floating,)):
        return float(x)
    if isinstance(x, (np.bool_,)):
        return bool(x)
    if isinstance(x, float):
        if x != x:
            return 'nan'
        if x in (float('inf'), float('-inf')):
            return 'inf' if x > 0 else '-inf'
        return x
    if isinstance(x, (int, str, bool)) or x is None:
        return x
    return repr(x)


def signature(*parts) -> str:
    h = hashlib.sha1()
    for p in parts:
        if isinstance(p, np.ndarray):
            h.update(str(p.dtype).encode())
            h.update(str(p.shape).encode())
            h.update(np.ascontiguousarray(p).tobytes())
        else:
            h.update(json.dumps(jsonable(p), sort_keys=True).encode())
        h.update(b'|')
    return h.hexdigest()[:20]


def unit_key(unit: dict) -> str:
    return json.dumps(unit, sort_keys=True)


def unit_rng(pid: str, seed: int, unit: dict) -> np.random.Generator:
    digest = hashlib.sha1((pid + '#' + unit_key(unit)).encode()).digest()
    words = [int.from_bytes(digest[i : i + 4], 'little') for i in (0, 4, 8)]
    return np.random.default_rng(np.random.SeedSequence([int(seed) & 0xFFFFFFFF, *words]))


class Skip(Exception):
    """Raised by a generator that cannot satisfy its precondition (counted, not a verdict)."""


class Ctx:
    """Collects what the monitors of one shard observed."""

    MAX_WITNESS = 4
    MAX_SAMPLES = 2

    def __init__(self, pid: str, seed: int, tier: str):
        self.pid = pid
        self.seed = seed
        self.tier = tier
        self.unit: dict | None = None
        self.evaluations = 0
        self.deciding = 0
        self.sigs: set[str] = set()
        self.samples: list = []
        self.trivial_sample = None
        self.counters: Counter = Counter()
        self.violations: list = []
        self.n_violations = 0
        self.known: Counter = Counter()
        self.known_examples: dict = {}
        self.inconclusive: Counter = Counter()
        self.skipped = 0
        self.units_done = 0
        self.units_total = 0

    # -- reporting API used by the property modules --------------------------------------------
    def case(self, sig: str | None, nontrivial: bool, sample=None):
        """Register one generated case (after it has been checked)."""
        self.evaluations += 1
        if nontrivial and sig is not None:
            self.sigs.add(sig)
        if sample is not None:
            if nontrivial and len(self.samples) < self.MAX_SAMPLES:
                self.samples.append(jsonable(sample))
            elif not nontrivial and self.trivial_sample is None:
                self.trivial_sample = jsonable(sample)

    def decided(self, n: int = 1):
        """Count evaluations of the deciding oracle."""
        self.deciding += n

    def count(self, name: str, n: int = 1):
        self.counters[name] += int(n)

    def violation(self, message: str, witness=None):
        self.n_violations += 1
        self.counters['violations'] += 1
        if len(self.violations) < self.MAX_WITNESS:
            self.violations.append(
                {'unit': self.unit, 'message': message, 'witness': jsonable(witness) if witness is not None else None, 'interpreter': {'hashseed': os.environ.get('PYTHONHASHSEED'), 'optimize': int(sys.flags.optimize)}}
            )

    def known_finding(self, key: str, message: str):
        self.known[key] += 1
        self.known_examples.setdefault(key, message)

    def inconclusive_case(self, reason: str):
        self.inconclusive[reason] += 1

    def check(self, cond: bool, message: str, witness=None) -> bool:
        self.decided()
        if not cond:
            self.violation(message, witness)
        return bool(cond)

    # -- serialisation ---------------------------------------------------------------------------
    def result(self) -> dict:
        return {
            'evaluations': self.evaluations,
            'deciding': self.deciding,
            'sigs': sorted(self.sigs),
            'samples': self.samples or ([self.trivial_sample] if self.trivial_sample is not None else []),
            'counters': dict(self.counters),
            'violations': self.violations,
            'n_violations': self.n_violations,
            'known': dict(self.known),
            'known_examples': self.known_examples,
            'inconclusive': dict(self.inconclusive),
            'skipped': self.skipped,
            'units_done': self.units_done,
            'units_total': self.units_total,
            'lines': {k: sorted(v) for k, v in getattr(getattr(self, 'coverage', None), 'lines', {}).items()},
        }


def load_prop(pid: str):
    return importlib.import_module(f'gv.props.{pid.lower()}')


def _in_code_under_test(tb, src: str) -> bool:
    """True iff the innermost frame that is neither stdlib/site-packages is in the code under test."""
    frames = traceback.extract_tb(tb)
    for fr in reversed(frames):
        if fr.filename.startswith('<'):
            continue
        fn = os.path.abspath(fr.filename)
        if fn.startswith(src + os.sep):
            return True
        if fn.startswith(VERIF + os.sep):
            return False
    return False


class LineCoverage:
    """One-shot LINE events (sys.monitoring, DISABLE after the first hit) restricted to the code
    under test: which statements of /repo/src/gemdat did the workload actually reach."""

    TOOL = 3

    def __init__(self, src):
        self.src = src + os.sep
        self.lines: dict[str, set] = {}
        self.on = False

    def start(self):
        mon = getattr(sys, 'monitoring', None)
        if mon is None or os.environ.get('GV_NO_COVERAGE'):
            return
        try:
            mon.use_tool_id(self.TOOL, 'gv-coverage')
        except ValueError:
            return

        def on_line(code, line):
            fn = code.co_filename
            if fn.startswith(self.src):
                self.lines.setdefault(fn[len(self.src):], set()).add(line)
            return mon.DISABLE

        mon.register_callback(self.TOOL, mon.events.LINE, on_line)
        mon.set_events(self.TOOL, mon.events.LINE)
        self.on = True

    def stop(self):
        if not self.on:
            return
        mon = sys.monitoring
        mon.set_events(self.TOOL, 0)
        mon.register_callback(self.TOOL, mon.events.LINE, None)
        mon.free_tool_id(self.TOOL)
        self.on = False


def executable_lines(path):
    """Line numbers that carry code in a source file (from the compiled code objects)."""
    try:
        code = compile(open(path).read(), path, 'exec')
    except Exception:  # noqa: BLE001
        return set()
    out = set()
    stack = [code]
    while stack:
        c = stack.pop()
        out.update(ln for _, _, ln in c.co_lines() if ln is not None)
        stack.extend(k for k in c.co_consts if hasattr(k, 'co_lines'))
    return out


def run_units(mod, units, seed, tier, budget_s, only=None) -> Ctx:
    src = bind_code_under_test()
    ctx = Ctx(mod.ID, seed, tier)
    ctx.units_total = len(units)
    cov = LineCoverage(src)
    cov.start()
    ctx.coverage = cov
    if hasattr(mod, 'setup'):
        mod.setup(ctx)
    t0 = time.time()
    for unit in units:
        if budget_s and time.time() - t0 > budget_s:
            ctx.counters['units_not_run_budget'] += 1
            continue
        ctx.unit = unit
        rng = unit_rng(mod.ID, seed, unit)
        try:
            mod.run_unit(unit, rng, ctx)
        except Skip:
            ctx.skipped += 1
        except MemoryError:
            ctx.inconclusive_case('MemoryError')
        except Exception as exc:  # noqa: BLE001
            tb = traceback.format_exc()
            if _in_code_under_test(exc.__traceback__, src):
                ctx.violation(
                    f'unexpected {type(exc).__name__} raised inside the code under test: {exc}',
                    {'traceback': tb[-3000:]},
                )
            else:
                ctx.inconclusive_case(f'harness error {type(exc).__name__}: {str(exc)[:200]}')
                ctx.counters['harness_errors'] += 1
                if ctx.counters['harness_errors'] <= 3:
                    sys.stderr.write(f'[gv] harness error in unit {unit}:\n{tb}\n')
        if sys.flags.optimize:
            ctx.count('units_run_with_assertions_stripped(python -O)')
        if os.environ.get('PYTHONHASHSEED', '0') not in ('0', ''):
            ctx.count('units_run_under_a_shard_specific_string_hash_seed')
        mon_ = getattr(mod, '_mon', None)
        if mon_ is not None and hasattr(mon_, 'end_of_unit'):
            mon_.end_of_unit(ctx)
        ctx.units_done += 1
    if hasattr(mod, 'teardown'):
        mod.teardown(ctx)
    try:
        from . import gen as _gen

        for k_, v_ in _gen.PRESENTATION.items():
            ctx.count(k_, v_)
        _gen.PRESENTATION.clear()
    except Exception:  # noqa: BLE001
        pass
    cov.stop()
    return ctx


def worker_main(argv):
    pid, tier, seed, shard, nshards, out, budget = argv
    seed, shard, nshards, budget = int(seed), int(shard), int(nshards), float(budget)
    bind_code_under_test()
    mod = load_prop(pid)
    units = mod.units(tier)
    limit = int(os.environ.get('GV_LIMIT', '0') or 0)
    if limit:
        units = units[:limit]
    units = units[shard::nshards]
    ctx = run_units(mod, units, seed, tier, budget)
    tmp = out + '.tmp'
    with open(tmp, 'w') as f:
        json.dump(ctx.result(), f)
    os.replace(tmp, out)


def load_known_findings(pid: str) -> dict:
    path = os.path.join(VERIF, 'known_findings.json')
    try:
        data = json.load(open(path))
    except FileNotFoundError:
        return {}
    return {e['key']: e for e in data.get('findings', []) if e.get('property') == pid and e.get('status') == 'known'}


def fold(results: list[dict]) -> dict:
    tot = {
        'evaluations': 0,
        'deciding': 0,
        'sigs': set(),
        'samples': [],
        'counters': Counter(),
        'violations': [],
        'n_violations': 0,
        'known': Counter(),
        'known_examples': {},
        'inconclusive': Counter(),
        'skipped': 0,
        'units_done': 0,
        'units_total': 0,
        'lines': {},
    }
    for r in results:
        tot['evaluations'] += r['evaluations']
        tot['deciding'] += r['deciding']
        tot['sigs'].update(r['sigs'])
        tot['samples'].extend(r['samples'])
        tot['counters'].update(r['counters'])
        tot['violations'].extend(r['violations'])
        tot['n_violations'] += r['n_violations']
        tot['known'].update(r['known'])
        for k, v in r['known_examples'].items():
            tot['known_examples'].setdefault(k, v)
        tot['inconclusive'].update(r['inconclusive'])
        tot['skipped'] += r['skipped']
        tot['units_done'] += r['units_done']
        tot['units_total'] += r['units_total']
        for k, v in r.get('lines', {}).items():
            tot['lines'].setdefault(k, set()).update(v)
    return tot


def write_replay(pid, tier, seed, v) -> str:
    os.makedirs(os.path.join(VERIF, 'replays'), exist_ok=True)
    h = hashlib.sha1(json.dumps([pid, seed, v['unit'], v['message']], sort_keys=True).encode()).hexdigest()[:12]
    path = os.path.join(VERIF, 'replays', f'{pid}-{h}.json')
    with open(path, 'w') as f:
        json.dump({'property': pid, 'tier': tier, 'seed': seed, **v}, f, indent=1)
    return path


def main(argv=None) -> int:
    import argparse

    ap = argparse.ArgumentParser(prog='gv')
    ap.add_argument('pid')
    ap.add_argument('--tier', default=None, choices=['quick', 'thorough'])
    ap.add_argument('--replay', default=None)
    ap.add_argument('--shards', type=int, default=None)
    ap.add_argument('--limit', type=int, default=None, help='only the first N units (debugging)')
    ap.add_argument('--inproc', action='store_true', help='run in this process (debugging)')
    ap.add_argument('--no-evidence', action='store_true')
    args = ap.parse_args(argv)

    pid = args.pid.upper()
    tier = args.tier or os.environ.get('VERIF_TIER') or 'quick'
    if tier not in ('quick', 'thorough'):
        tier = 'quick'
    seed = int(os.environ.get('VERIF_SEED', '0') or 0)
    t0 = time.time()

    sys.path.insert(0, VERIF)
    if args.replay:
        return replay(args.replay)

    try:
        bind_code_under_test()
        mod = load_prop(pid)
        units = mod.units(tier)
    except Exception:  # noqa: BLE001
        traceback.print_exc()
        print(f'INCONCLUSIVE property={pid} reason=cannot import code under test or property module')
        return 2
    if args.limit:
        units = units[: args.limit]
    budget = float(os.environ.get('GV_BUDGET_S', getattr(mod, 'BUDGET_S', {}).get(tier, 240 if tier == 'quick' else 2400)))
    hard = budget * 2.0 + 300

    results = []
    shard_failures = []
    if args.inproc:
        ctx = run_units(mod, units, seed, tier, budget)
        results.append(ctx.result())
        nshards = 1
    else:
        nshards = args.shards or min(NCPU, max(1, len(units)))
        tmpdir = tempfile.mkdtemp(prefix=f'gv-{pid}-')
        try:
            env = dict(os.environ)
            env['PYTHONPATH'] = VERIF + os.pathsep + env.get('PYTHONPATH', '')
            env.setdefault('OMP_NUM_THREADS', '1')
            env.setdefault('OPENBLAS_NUM_THREADS', '1')
            env.setdefault('MKL_NUM_THREADS', '1')
            # string hashing is part of the interpreter configuration too: unless the caller pins PYTHONHASHSEED, every
            # shard gets its own (deterministic) seed, so iteration orders of sets of labels / species differ between
            # shards; the seed of the shard that saw a violation is stored in the replay file
            vary_hash = 'PYTHONHASHSEED' not in os.environ
            env.setdefault('PYTHONHASHSEED', '0')
            env['GV_LIMIT'] = str(args.limit or 0)
            procs = []
            for sh in range(nshards):
                out = os.path.join(tmpdir, f'shard{sh}.json')
                log = open(os.path.join(tmpdir, f'shard{sh}.log'), 'w')
                # interpreter configuration is part of the workload: every third shard runs with assertions
                # stripped (python -O), where the library's `assert` statements (and anything hidden in them) vanish
                env_sh = dict(env, PYTHONOPTIMIZE='1') if sh % 3 == 2 and not os.environ.get('GV_NO_OPTIMIZE') else dict(env)
                if vary_hash:
                    env_sh['PYTHONHASHSEED'] = str((seed * 101 + sh * 7919) % 4294967295)
                p = subprocess.Popen(
                    [sys.executable, '-m', 'gv.worker', pid, tier, str(seed), str(sh), str(nshards), out, str(budget)],
                    cwd=VERIF,
                    env=env_sh,
                    stdout=log,
                    stderr=subprocess.STDOUT,
                )
                procs.append((sh, p, out, log))
            deadline = time.time() + hard
            for sh, p, out, log in procs:
                try:
                    p.wait(timeout=max(1, deadline - time.time()))
                except subprocess.TimeoutExpired:
                    p.kill()
                    p.wait()
                    shard_failures.append(f'shard {sh} timed out (watchdog {hard:.0f}s)')
                log.close()
                if os.path.exists(out):
                    results.append(json.load(open(out)))
                elif not any(s.startswith(f'shard {sh} ') for s in shard_failures):
                    tail = open(log.name).read()[-1500:]
                    shard_failures.append(f'shard {sh} died rc={p.returncode}: {tail}')
        finally:
            shutil.rmtree(tmpdir, ignore_errors=True)

    tot = fold(results)
    wall = time.time() - t0
    known_listed = load_known_findings(pid)

    rc = 0
    lines = []
    # known findings: only keys listed in the committed file are tolerated
    unlisted = {k: n for k, n in tot['known'].items() if k not in known_listed}
    for k, n in sorted(tot['known'].items()):
        if k in known_listed:
            lines.append(f"KNOWN-FINDING: property={pid} {known_listed[k]['what']} [{k}; seen {n}x; e.g. {tot['known_examples'].get(k, '')}]")
    viol = list(tot['violations'])
    for k, n in unlisted.items():
        viol.append({'unit': None, 'message': f'deviation classified as {k} but not listed in known_findings.json: {tot["known_examples"].get(k)}', 'witness': None})
    n_viol = tot['n_violations'] + sum(unlisted.values())
    if n_viol:
        rc = 1
        for v in viol[:5]:
            path = write_replay(pid, tier, seed, v)
            lines.append(f'VIOLATION property={pid} replay={path}')
            lines.append(f'  detail: {v["message"][:600]}')
    min_dec = getattr(mod, 'MIN_DECIDING', 1)
    inconclusive_reasons = list(shard_failures)
    if tot['deciding'] < min_dec:
        inconclusive_reasons.append(f'deciding oracle evaluated {tot["deciding"]} times (< {min_dec})')
    if len(tot['sigs']) < 2:
        inconclusive_reasons.append(f'only {len(tot["sigs"])} distinct non-trivial cases observed')
    if tot['counters'].get('harness_errors'):
        inconclusive_reasons.append(f"{tot['counters']['harness_errors']} harness errors: {dict(tot['inconclusive'])}")
    if rc == 0 and inconclusive_reasons:
        rc = 2
        for r in inconclusive_reasons:
            lines.append(f'INCONCLUSIVE property={pid} reason={r[:800]}')

    if not args.no_evidence:
        write_evidence(mod, pid, tier, seed, tot, wall, n_viol, nshards, inconclusive_reasons, known_listed)
    verdict = {0: 'HELD', 1: 'VIOLATED', 2: 'INCONCLUSIVE'}[rc]
    print(
        f'[gv] {pid} tier={tier} seed={seed} verdict={verdict} units={tot["units_done"]}/{tot["units_total"]} '
        f'evaluations={tot["evaluations"]} deciding_checks={tot["deciding"]} distinct_nontrivial={len(tot["sigs"])} '
        f'skipped={tot["skipped"]} known={sum(tot["known"].values())} wall={wall:.1f}s'
    )
    for ln in lines:
        print(ln)
    sys.stdout.flush()
    return rc


def write_evidence(mod, pid, tier, seed, tot, wall, n_viol, nshards, inconclusive_reasons, known_listed):
    os.makedirs(os.path.join(VERIF, 'evidence'), exist_ok=True)
    counters = dict(sorted(tot['counters'].items()))
    cov = {
        'evaluations': int(tot['evaluations']),
        'distinct_nontrivial': len(tot['sigs']),
        'rule': mod.RULE,
        'samples': tot['samples'][:5],
        'deciding_oracle_evaluations': int(tot['deciding']),
        'observed': counters,
        'units_done': tot['units_done'],
        'units_total': tot['units_total'],
        'generator_preconditions_unsatisfied': tot['skipped'],
        'known_findings_seen': {k: int(v) for k, v in tot['known'].items()},
        'inconclusive_cases': {k: int(v) for k, v in tot['inconclusive'].items()},
        'inconclusive_reasons': inconclusive_reasons,
        'shards': nshards,
        'code_under_test': src_dir(),
    }
    cov['statement_coverage_of_anchor_files'] = anchor_coverage(pid, tot.get('lines', {}))
    if hasattr(mod, 'exhaustive'):
        ex = mod.exhaustive(tier)
        if ex:
            cov['exhaustive'] = bool(ex.get('complete')) and tot['units_done'] == tot['units_total'] and not counters.get('units_not_run_budget')
            cov['exhaustive_bounds'] = ex
    ev = {
        'property_id': pid,
        'tier': tier,
        'seed': int(seed),
        'level': mod.LEVEL,
        'coverage': cov,
        'assumptions': list(getattr(mod, 'ASSUMPTIONS', [])),
        'wall_s': round(wall, 2),
        'violations': int(n_viol),
    }
    path = os.path.join(VERIF, 'evidence', f'{pid}.json')
    tmp = path + '.tmp'
    with open(tmp, 'w') as f:
        json.dump(ev, f, indent=1)
    os.replace(tmp, path)


def anchor_coverage(pid, lines):
    """Per anchor file of the property: statements of /repo/src reached by this run's workload
    (sys.monitoring LINE events, union over shards).  Informational."""
    out = {}
    try:
        anchors = []
        for ln in open(os.path.join(VERIF, 'properties.jsonl')):
            p = json.loads(ln)
            if p['id'] == pid:
                anchors = p['anchors']['files']
        for f in anchors:
            rel = f[len('src/'):] if f.startswith('src/') else f
            path = os.path.join(src_dir(), rel)
            exe = executable_lines(path)
            hit = set(lines.get(rel, ())) & exe if exe else set(lines.get(rel, ()))
            per_fn = {}
            try:
                import ast

                tree = ast.parse(open(path).read())

                def walk(node, prefix):
                    for ch in ast.iter_child_nodes(node):
                        if isinstance(ch, (ast.FunctionDef, ast.AsyncFunctionDef)):
                            body = {ln for ln in exe if ch.body[0].lineno <= ln <= ch.end_lineno}
                            got = body & hit
                            if got:
                                per_fn[prefix + ch.name] = f'{len(got)}/{len(body)}'
                            walk(ch, prefix + ch.name + '.')
                        elif isinstance(ch, ast.ClassDef):
                            walk(ch, prefix + ch.name + '.')

                walk(tree, '')
            except Exception:  # noqa: BLE001
                pass
            out[f] = {'statements_reached': len(hit), 'statements_total': len(exe), 'functions_reached(statements hit/total)': per_fn}
    except Exception as exc:  # noqa: BLE001
        out['error'] = repr(exc)
    return out


def replay(path: str) -> int:
    rec = json.load(open(path))
    pid, tier, seed, unit = rec['property'], rec['tier'], rec['seed'], rec['unit']
    if unit is None:
        print(f'[gv] replay file {path} has no unit (aggregate finding): {rec["message"]}')
        return 1
    interp = rec.get('interpreter') or {}
    want_hash, want_opt = interp.get('hashseed'), int(interp.get('optimize') or 0)
    if (want_hash is not None and os.environ.get('PYTHONHASHSEED') != want_hash) or want_opt != int(sys.flags.optimize):
        # re-run under the interpreter configuration of the shard that recorded the violation
        env = dict(os.environ, PYTHONPATH=VERIF + os.pathsep + os.environ.get('PYTHONPATH', ''))
        if want_hash is not None:
            env['PYTHONHASHSEED'] = want_hash
        env.pop('PYTHONOPTIMIZE', None)
        cmd = [sys.executable] + (['-O'] if want_opt else []) + ['-m', 'gv', pid, '--replay', path]
        return subprocess.call(cmd, cwd=VERIF, env=env)
    bind_code_under_test()
    mod = load_prop(pid)
    ctx = run_units(mod, [unit], seed, tier, 0)
    known_listed = load_known_findings(pid)
    unlisted = [k for k in ctx.known if k not in known_listed]
    print(f'[gv] replay {pid} unit={unit} seed={seed}: violations={ctx.n_violations} known={dict(ctx.known)}')
    for v in ctx.violations:
        print('  ', v['message'][:1000])
    if ctx.n_violations or unlisted:
        print(f'VIOLATION property={pid} replay={path}')
        return 1
    return 0
