"""Snapshots of inputs / source objects, to assert that queries do not mutate what they were given.

The trajectory snapshot is *representation independent*: it never calls ``positions`` /
``displacements`` (which switch the storage mode in place) but reads the raw attributes and
reconstructs the wrapped positions itself.
"""
from __future__ import annotations

import copy

import numpy as np


def traj_positions_raw(t) -> np.ndarray:
    c = np.asarray(t.coords, dtype=float)
    if t.coords_are_displacement:
        base = np.asarray(t.base_positions, dtype=float)
        c = base[None] + np.cumsum(c, axis=0)
    p = np.mod(c, 1)
    p[p == 1] = 0
    return p


def traj_content(t) -> dict:
    return {
        'positions': traj_positions_raw(t).copy(),
        'species': [getattr(s, 'symbol', str(s)) for s in t.species],
        'lattice': np.array(t.lattice, dtype=float).copy(),
        'time_step': t.time_step,
        'metadata': copy.deepcopy(getattr(t, 'metadata', None)),
        'n_frames': len(t.coords),
    }


def diff_traj_content(a: dict, b: dict, tol=1e-9):
    """None if equal, else a description of the first difference."""
    if a['n_frames'] != b['n_frames'] or a['positions'].shape != b['positions'].shape:
        return f"shape {a['positions'].shape} -> {b['positions'].shape}"
    d = np.abs(a['positions'] - b['positions'])
    d = np.minimum(d, 1 - d)
    if d.size and d.max() > tol:
        idx = np.unravel_index(np.argmax(d), d.shape)
        return f'positions{list(int(i) for i in idx)} {a["positions"][idx]!r} -> {b["positions"][idx]!r}'
    for k in ('species', 'time_step', 'metadata'):
        if a[k] != b[k]:
            return f'{k} {a[k]!r} -> {b[k]!r}'
    if not np.allclose(a['lattice'], b['lattice'], rtol=0, atol=1e-12):
        return 'lattice changed'
    return None


def freeze(x):
    """Deep, comparable copy of plain containers / arrays."""
    if isinstance(x, dict):
        return {k: freeze(v) for k, v in x.items()}
    if isinstance(x, (list, tuple)):
        return [freeze(v) for v in x]
    if isinstance(x, np.ndarray):
        return x.copy()
    return copy.deepcopy(x)


def same(a, b) -> bool:
    if isinstance(a, dict):
        return isinstance(b, dict) and a.keys() == b.keys() and all(same(a[k], b[k]) for k in a)
    if isinstance(a, list):
        return isinstance(b, (list, tuple)) and len(a) == len(b) and all(same(x, y) for x, y in zip(a, b))
    if isinstance(a, np.ndarray):
        return isinstance(b, np.ndarray) and a.shape == b.shape and bool(np.array_equal(a, b, equal_nan=a.dtype.kind == 'f'))
    return a == b


def structure_content(st) -> dict:
    return {'frac': np.array(st.frac_coords, dtype=float).copy(), 'labels': list(st.labels), 'species': [str(s) for s in st.species], 'lattice': np.array(st.lattice.matrix).copy()}
