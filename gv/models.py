"""Reference models: direct, loop-based transcriptions of the property statements.

They share no code with GEMDAT and use no library beyond numpy / heapq.
"""
from __future__ import annotations

import heapq
import itertools

import numpy as np

from . import geom


# ---------------------------------------------------------------------------------------------
# C03: events, fills
# ---------------------------------------------------------------------------------------------
def events_model(states: np.ndarray, inner: np.ndarray):
    """All change rows (atom, s0, s1, i0, i1, t); ``site_change`` marks rows where the site changes."""
    T, N = states.shape
    rows = []
    for a in range(N):
        for t in range(T - 1):
            ds = states[t, a] != states[t + 1, a]
            di = inner[t, a] != inner[t + 1, a]
            if ds or di:
                rows.append((a, int(states[t, a]), int(states[t + 1, a]), int(inner[t, a]), int(inner[t + 1, a]), t, bool(ds)))
    return rows


def ffill_model(states: np.ndarray, nosite=-1) -> np.ndarray:
    out = states.copy()
    T, N = states.shape
    for a in range(N):
        last = nosite
        for t in range(T):
            if states[t, a] != nosite:
                last = states[t, a]
            out[t, a] = last
    return out


def bfill_model(states: np.ndarray, nosite=-1) -> np.ndarray:
    out = states.copy()
    T, N = states.shape
    for a in range(N):
        nxt = nosite
        for t in range(T - 1, -1, -1):
            if states[t, a] != nosite:
                nxt = states[t, a]
            out[t, a] = nxt
    return out


# ---------------------------------------------------------------------------------------------
# C04: jumps
# ---------------------------------------------------------------------------------------------
def default_jumps(states: np.ndarray):
    """(atom, origin, destination, start, stop) for consecutive distinct visited sites."""
    T, N = states.shape
    out = []
    for a in range(N):
        last_site = -1
        last_t = -1
        for t in range(T):
            s = int(states[t, a])
            if s < 0:
                continue
            if last_site >= 0 and s != last_site:
                out.append((a, last_site, s, last_t, t))
            last_site = s
            last_t = t
    return out


# ---------------------------------------------------------------------------------------------
# C12: collective
# ---------------------------------------------------------------------------------------------
def collective_pairs(jumps, site_frac, matrix, window, cutoff):
    """Unordered index pairs (i, j), i<j, over the given jump list that qualify as collective.

    jumps: list of (atom, origin, destination, start, stop)
    """
    n = len(jumps)
    if n == 0:
        return set()
    d = geom.min_image(matrix, site_frac, site_frac)
    out = set()
    for i in range(n):
        ai, oi, di, si, ei = jumps[i]
        for j in range(i + 1, n):
            aj, oj, dj, sj, ej = jumps[j]
            if ai == aj:
                continue
            if sj - ei > window or si - ej > window:
                continue
            dd = [d[oi, oj], d[oi, dj], d[di, oj], d[di, dj]]
            if min(dd) < cutoff:
                out.add((i, j))
    return out


# ---------------------------------------------------------------------------------------------
# C06: MSD
# ---------------------------------------------------------------------------------------------
def msd_model(cart: np.ndarray) -> np.ndarray:
    """cart[t, a, 3] unwrapped Cartesian -> msd[a, tau] averaged over all time origins."""
    T, N, _ = cart.shape
    out = np.zeros((N, T))
    for tau in range(T):
        diff = cart[tau:] - cart[: T - tau]
        out[:, tau] = np.mean(np.sum(diff * diff, axis=2), axis=0)
    return out


# ---------------------------------------------------------------------------------------------
# C10: shortest paths on the periodic voxel grid
# ---------------------------------------------------------------------------------------------
FACE_MOVES = [(1, 0, 0), (-1, 0, 0), (0, 1, 0), (0, -1, 0), (0, 0, 1), (0, 0, -1)]
ALL26 = [m for m in itertools.product((-1, 0, 1), repeat=3) if m != (0, 0, 0)]
# the move list GEMDAT actually uses with diagonal=True (4 of the 8 corner moves)
GEMDAT22 = FACE_MOVES + [
    (1, 1, 0), (-1, -1, 0), (1, -1, 0), (-1, 1, 0),
    (1, 0, 1), (-1, 0, -1), (1, 0, -1), (-1, 0, 1),
    (0, 1, 1), (0, -1, -1), (0, 1, -1), (0, -1, 1),
    (1, 1, 1), (-1, -1, -1), (1, -1, -1), (-1, 1, 1),
]


def grid_neighbours(shape, moves, symmetric=True):
    """dict node -> set(neighbour nodes) on the periodic grid (undirected, as in the statement)."""
    nb = {}
    for node in itertools.product(*[range(n) for n in shape]):
        s = set()
        for mv in moves:
            q = tuple((node[i] + mv[i]) % shape[i] for i in range(3))
            if q != node:
                s.add(q)
        nb[node] = s
    if symmetric:
        for a, s in list(nb.items()):
            for b in s:
                nb[b].add(a)
    return nb


def dijkstra(nb, allowed, start, stop, edge_cost):
    """Plain heap Dijkstra; returns the optimal cost (inf if unreachable)."""
    if start not in allowed or stop not in allowed:
        return float('inf')
    dist = {start: 0.0}
    heap = [(0.0, start)]
    done = set()
    while heap:
        d, u = heapq.heappop(heap)
        if u in done:
            continue
        done.add(u)
        if u == stop:
            return d
        for v in nb[u]:
            if v not in allowed or v in done:
                continue
            nd = d + edge_cost(u, v)
            if nd < dist.get(v, float('inf')):
                dist[v] = nd
                heapq.heappush(heap, (nd, v))
    return float('inf')


def bottleneck(nb, energy, allowed, start, stop):
    """Minimum over paths of the maximum voxel energy (union-find over nodes sorted by energy)."""
    if start not in allowed or stop not in allowed:
        return float('inf')
    parent = {}

    def find(x):
        while parent[x] != x:
            parent[x] = parent[parent[x]]
            x = parent[x]
        return x

    for node in sorted(allowed, key=lambda n: energy[n]):
        parent[node] = node
        for v in nb[node]:
            if v in parent:
                ra, rb = find(node), find(v)
                if ra != rb:
                    parent[ra] = rb
        if start in parent and stop in parent and find(start) == find(stop):
            return float(energy[node])
    return float('inf')
