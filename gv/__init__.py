"""gv — runtime monitors for GEMDAT's semantic properties C01..C20."""
