#!/venv/bin/python
"""Confirm and evaluate a seeded property-breaking change produced by an independent sub-agent.

usage: seeded_eval.py <ID> <agent worktree> [--props C01,C02] [--store]

Steps (all on a scratch copy of /repo/src under a temp dir, removed afterwards; /repo is not touched):
  1. patch applies cleanly to the current /repo/src
  2. the repository's pinned test suite still has its 66 baseline passes on the patched copy
  3. the demonstration exits 1 on the patched copy and 0 on the unpatched tree
  4. the quick checks of the listed properties (default: the property the change targets) are run
     against the patched copy (GV_SRC) -> caught iff exit code 1 with a VIOLATION line
With --store the patch, demo and meta.json are written to /verif/seeded/<name>/.
"""
import argparse
import json
import os
import shutil
import subprocess
import sys
import tempfile

VERIF = os.path.dirname(os.path.dirname(os.path.abspath(__file__)))


def sh(cmd, **kw):
    return subprocess.run(cmd, capture_output=True, text=True, **kw)


def main():
    ap = argparse.ArgumentParser()
    ap.add_argument('pid')
    ap.add_argument('worktree')
    ap.add_argument('--props', default='')
    ap.add_argument('--name', default='')
    ap.add_argument('--store', action='store_true')
    ap.add_argument('--tier', default='quick')
    ap.add_argument('--seeds', default='0')
    ap.add_argument('--checks-only', action='store_true', help='skip the 66 baseline tests and the demo (confirmed when the seed was stored); only run the checks')
    args = ap.parse_args()
    pid = args.pid
    sd = os.path.join(args.worktree, 'seeded')
    if os.path.exists(os.path.join(args.worktree, 'patch.diff')):
        sd = args.worktree
    patch = os.path.join(sd, 'patch.diff')
    demo = os.path.join(sd, 'demo.py')
    if not (os.path.exists(patch) and os.path.exists(demo)):
        print('missing deliverables', os.listdir(sd) if os.path.isdir(sd) else sd)
        return 2
    props = [p for p in (args.props.split(',') if args.props else [pid]) if p]
    if not args.props and os.path.exists(os.path.join(sd, 'meta.json')):
        # a stored seed is re-evaluated with the checks that are recorded as catching it (a sibling check for some)
        try:
            props = list(json.load(open(os.path.join(sd, 'meta.json'))).get('caught_by') or []) or props
        except Exception:
            pass
    tmp = tempfile.mkdtemp(prefix='gvseed-')
    meta = {'property': pid, 'source': 'independent sub-agent given only the property text and a scratch worktree'}
    try:
        shutil.copytree('/repo/src', os.path.join(tmp, 'src'))
        shutil.copytree('/repo/tests', os.path.join(tmp, 'tests'), ignore=shutil.ignore_patterns('data'))
        shutil.copy('/repo/pyproject.toml', tmp)
        p = sh(['patch', '-p1', '--no-backup-if-mismatch', '-i', patch], cwd=tmp)
        meta['patch_applies'] = p.returncode == 0
        if p.returncode != 0:
            print('patch does not apply:', p.stdout[-500:], p.stderr[-300:])
            return 2
        if args.checks_only:
            meta['confirmed'] = True  # as recorded when the seed was stored
        else:
            t = sh(['/venv/bin/python', os.path.join(VERIF, 'tools', 'baseline_check.py'), tmp])
            meta['baseline_66_pass'] = t.returncode == 0
            print('tests:', t.stdout.strip().splitlines()[-1] if t.stdout.strip() else t.stderr[-200:])
            env = dict(os.environ, PYTHONPATH=os.path.join(tmp, 'src'))
            d1 = sh(['/venv/bin/python', demo], env=env, cwd=tmp, timeout=900)
            env0 = dict(os.environ, PYTHONPATH='/repo/src')
            d0 = sh(['/venv/bin/python', demo], env=env0, cwd=tmp, timeout=900)
            meta['demo_exit_with_change'] = d1.returncode
            meta['demo_exit_without_change'] = d0.returncode
            print(f'demo: with change rc={d1.returncode}, without rc={d0.returncode}')
            print('  demo output (with change):', (d1.stdout + d1.stderr).strip()[-400:].replace('\n', ' | '))
            meta['confirmed'] = bool(meta['baseline_66_pass'] and d1.returncode == 1 and d0.returncode == 0)
        runs = {}
        # a stored seed may name environment switches its detection needs (e.g. GV_HUGE=1: the >256 MiB unit of C01,
        # which belongs to the thorough tier, is added to the quick run)
        eval_env = {}
        if os.path.exists(os.path.join(sd, 'meta.json')):
            try:
                eval_env = dict(json.load(open(os.path.join(sd, 'meta.json'))).get('eval_env') or {})
            except Exception:
                eval_env = {}
        if eval_env:
            meta['eval_env'] = eval_env
        for pr in props:
            for seed in args.seeds.split(','):
                env = dict(os.environ, GV_SRC=os.path.join(tmp, 'src'), VERIF_SEED=seed, **eval_env)
                r = sh(['/venv/bin/python', '-m', 'gv', pr, '--tier', args.tier, '--no-evidence'], cwd=VERIF, env=env)
                detail = [ln.strip() for ln in r.stdout.splitlines() if ln.startswith('  detail')][:1]
                runs[f'{pr}@seed{seed}'] = {'rc': r.returncode, 'detail': detail[0][:300] if detail else ''}
                print(f'check {pr} seed={seed}: rc={r.returncode} {detail[0][:220] if detail else r.stdout.strip().splitlines()[0][:200] if r.stdout.strip() else ""}')
        meta['checks'] = runs
        meta['caught_by'] = sorted({k.split('@')[0] for k, v in runs.items() if v['rc'] == 1})
        meta['caught'] = bool(meta['caught_by'])
        if args.store:
            name = args.name or pid.lower() + '_agent'
            dst = os.path.join(VERIF, 'seeded', name)
            os.makedirs(dst, exist_ok=True)
            shutil.copy(patch, os.path.join(dst, 'patch.diff'))
            shutil.copy(demo, os.path.join(dst, 'demo.py'))
            notes = os.path.join(sd, 'notes.md')
            if os.path.exists(notes):
                shutil.copy(notes, os.path.join(dst, 'notes.md'))
                meta['needs_to_manifest'] = 'see notes.md'
            meta['what_was_run'] = [
                'patch -p1 on a scratch copy of /repo/src',
                'tools/baseline_check.py <copy> (66 baseline tests)',
                'demo.py with PYTHONPATH=<copy>/src and with PYTHONPATH=/repo/src',
                f'GV_SRC=<copy>/src python -m gv <prop> --tier {args.tier} for {props}',
            ]
            json.dump(meta, open(os.path.join(dst, 'meta.json'), 'w'), indent=1)
        n_runs = len(runs)
        n_hit = sum(1 for v in runs.values() if v['rc'] == 1)
        meta['caught_in_runs'] = f'{n_hit}/{n_runs}'
        print('RESULT', pid, ('stored' if args.checks_only else 'confirmed') if meta['confirmed'] else 'NOT-CONFIRMED', ('CAUGHT by ' + ','.join(meta['caught_by']) if meta['caught'] else 'MISSED'), f'[{n_hit}/{n_runs} runs]' + (' FLAKY' if 0 < n_hit < n_runs else ''))
        return 0 if meta['caught'] else 1
    finally:
        shutil.rmtree(tmp, ignore_errors=True)


if __name__ == '__main__':
    sys.exit(main())
