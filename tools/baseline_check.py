#!/venv/bin/python
"""Run the repository's pinned test suite (hooks off) and compare with BASELINE.json.

usage: baseline_check.py [repo_dir]
exit 0 iff every test in BASELINE.stable_pass passes.
"""
import json
import os
import subprocess
import sys
import tempfile
import xml.etree.ElementTree as ET

repo = sys.argv[1] if len(sys.argv) > 1 else '/repo'
base = json.load(open('/root/.vp/BASELINE.json'))
want = set(base['stable_pass'])
fd, junit = tempfile.mkstemp(suffix='.xml')
os.close(fd)
env = dict(os.environ)
env.pop('GEMDAT_REPOS_GEMDAT_VERIF', None)
if repo != '/repo':
    env['PYTHONPATH'] = os.path.join(repo, 'src')
cmd = [
    '/venv/bin/python', '-m', 'pytest', '-ra', '-q', '-p', 'no:cacheprovider', '--timeout=900',
    '--continue-on-collection-errors', f'--junitxml={junit}',
]
p = subprocess.run(cmd, cwd=repo, env=env, capture_output=True, text=True)
passed = set()
for tc in ET.parse(junit).getroot().iter('testcase'):
    if not any(ch.tag in ('failure', 'error', 'skipped') for ch in tc):
        passed.add(f"{tc.get('classname')}::{tc.get('name')}")
os.unlink(junit)
missing = sorted(want - passed)
print(p.stdout.strip().splitlines()[-1] if p.stdout.strip() else p.stderr[-500:])
print(f'baseline stable_pass={len(want)} passed_now={len(passed)} missing={len(missing)}')
for m in missing:
    print('  MISSING', m)
sys.exit(1 if missing else 0)
