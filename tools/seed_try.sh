#!/bin/bash
# usage: seed_try.sh <seed dir name under seeded/> <PROP> [VERIF_SEED...]  -- run a quick check against a scratch copy with the stored patch applied
set -u
here=$(cd "$(dirname "$0")/.." && pwd)
name=$1; prop=$2; shift 2
seeds=${*:-0}
tmp=$(mktemp -d /tmp/gvtry-XXXXXX)
trap 'rm -rf "$tmp"' EXIT
cp -r /repo/src "$tmp/src"
(cd "$tmp" && patch -p1 --no-backup-if-mismatch -s -i "$here/seeded/$name/patch.diff") || { echo "patch failed"; exit 2; }
for s in $seeds; do
  (cd "$here" && GV_SRC="$tmp/src" VERIF_SEED=$s /venv/bin/python -m gv "$prop" --tier "${TIER:-quick}" --no-evidence ${GV_ARGS:-} | grep -E "^\[gv\]|detail" | head -3 | cut -c1-400)
done
