#!/bin/bash
# re-run every stored seed against the checks recorded as catching it (no baseline tests / demos: confirmed at store time)
cd "$(dirname "$0")/.."
ls -d seeded/*/ | xargs -P ${JOBS:-3} -I{} bash -c 'd={}; n=$(basename $d); pid=$(echo ${n:0:3} | tr a-z A-Z); /venv/bin/python tools/seeded_eval.py $pid $PWD/$d --checks-only --seeds ${SEED_SEEDS:-0} 2>&1 | grep "^RESULT" | sed "s/^/$n /"'
