#!/venv/bin/python
"""Write the task files for a round of independent seeding sub-agents.

usage: mkprompts.py <round number> <worktree root>     (worktrees <root>/C01..C20 must exist)
Each agent gets: the text of one property, its own worktree, and one-line descriptions of the changes
earlier agents already proposed for that property (so that it looks for a different kind).  Nothing about
the checks in /verif is passed on.
"""
import json
import os
import sys

rnd, root = int(sys.argv[1]), sys.argv[2]
ORD = {2: 'SECOND', 3: 'THIRD', 4: 'FOURTH', 5: 'FIFTH', 6: 'SIXTH', 7: 'SEVENTH', 8: 'EIGHTH'}


def taken(pid):
    out = []
    for r in range(1, rnd):
        suf = '_agent' if r == 1 else f'_agent_r{r}'
        p = f'/verif/seeded/{pid.lower()}{suf}/meta.json'
        if os.path.exists(p):
            m = json.load(open(p))
            out.append(f"{m['change']}  [trigger: {m['needs_to_manifest']}]")
    return out


T = '''You are helping to evaluate a verification effort for the open-source Python library GEMDAT (molecular-dynamics trajectory analysis for ion diffusion, built on pymatgen). Your job is to play the role of a developer who introduces a subtle REGRESSION.

You have your own scratch git worktree of the repository at: {wt}
Work ONLY inside that directory. Do not read or touch /verif, /repo or any other directory outside your worktree (apart from running the Python interpreter /venv/bin/python). There is no network.
Do NOT use `git stash` (the stash is shared between worktrees and other people are working in sibling worktrees). To toggle your change use:  git -C {wt} diff -- src > {wt}/seeded/patch.diff ; git -C {wt} apply -R {wt}/seeded/patch.diff ; ... ; git -C {wt} apply {wt}/seeded/patch.diff

IMPORTANT - how to run code against YOUR worktree: the package is installed in editable mode pointing at another checkout, so you MUST set PYTHONPATH, e.g.
    cd {wt} && PYTHONPATH={wt}/src /venv/bin/python -m pytest -q -p no:cacheprovider --timeout=900 --continue-on-collection-errors 2>&1 | tail -5
(40 tests fail/error because a data submodule is absent; exactly 66 tests pass on the unmodified tree. That baseline of 66 passing tests must be unchanged by your modification - check the count and that no previously passing test fails.)
    cd {wt} && PYTHONPATH={wt}/src /venv/bin/python your_script.py

THE PROPERTY that the library is supposed to satisfy:

  {pid}: {title}
  Statement: {statement}
  Holds for: {quant}
  Why the existing tests cannot settle it: {why}
  Code anchored in: {files}

YOUR TASK: make a small, realistic change to the library source under {wt}/src/gemdat (the kind of mistake or "optimisation"/refactoring a developer could plausibly commit) that BREAKS this property while
  (a) the package still imports and the existing test suite still has its 66 passing tests, and
  (b) the breakage is SILENT (no exception) and needs something specific to manifest.
{n_taken} changes have ALREADY been proposed for this property by other people (a verification team has since made sure all of them are detected, together with their whole input classes: call histories on the same object, argument immutability, very long trajectories, >255 / >1000 sites, atoms, bins or voxels, dtype boundaries, non-contiguous arrays, left-handed and skewed cells, rarely used argument types, exact part boundaries, foreign site lattices, label names that are prefixes of each other, several species objects per element, objects left in displacement mode, in-place edits followed by a re-query, alternate entry points ...):
{taken}
Find a {ordinal} way that is different in kind from all of them. Read the property statement clause by clause and the anchored code line by line and ask: which clause, which branch, which argument, which combination of two features has not been touched yet? Suggestions: {suggest}
Do NOT make a change that ordinary use with a simple cubic example would expose immediately.
Keep it to a few lines. Do not edit the tests. Do not add new dependencies.

DELIVERABLES (create the directory {wt}/seeded/ and put there):
  1. patch.diff   - output of `git -C {wt} diff -- src` (your change only; source files only)
  2. demo.py      - a self-contained script (uses only the library's public API + numpy/pymatgen) that demonstrates the violation: it must exit with status 1 (printing what went wrong) when run against your modified tree, and exit with status 0 when run against the unmodified tree. Verify BOTH yourself (git apply -R / git apply as above) with PYTHONPATH={wt}/src.
  3. notes.md     - 5-10 lines: what you changed, why it breaks the property, what specific condition is needed for it to manifest, and the commands you ran with their outcomes (test-suite pass count with the change, demo exit codes with and without the change).
Leave your modification applied in the worktree when you finish. In your final answer, summarise in at most 8 lines: the change, the trigger condition and the verification results.
'''
SUGGEST = {
    6: 'a unit or scale convention (fs vs s, Angstrom vs m, per-atom vs per-cell, frames vs time, n vs n-1 in a denominator) that coincides in the common case; an aggregation over a group that silently assumes the group is non-empty, sorted, unique or contiguous; a comparison that should be strict / non-strict exactly at a threshold the user passes; state kept at module or class level (a default mutable argument, a class attribute used as a scratch buffer, a global registry) so that one call or one object influences the next; an argument that is honoured on the first call but ignored on later ones; a copy that became a view (or a view that became a copy) so that results alias each other or the input; symmetric treatment of something asymmetric (a transposed matrix, swapped axes of a non-cubic grid, row vs column vectors of the lattice); a tolerance / epsilon introduced "for robustness" that changes results near but not at a boundary; iteration order of a dict / set / groupby that is assumed to be sorted; integer overflow or float precision loss in an index computation (flattened indices, packed keys); behaviour for the LAST element, frame, atom, site or part only.',
}
SUGGEST[7] = 'a shape coincidence that hides an axis mix-up (n_atoms == n_frames, n_atoms == 3, n_sites == n_atoms, a single frame, a single atom of a species, square vs non-square tables); truthiness of numbers and arrays (`if radius:` with 0.0, `x or default`, `if arr:`), `is` vs `==`, default arguments evaluated once at definition time; vectorising a loop with a subtly different broadcast, reduction axis, keepdims or order of operations; numerical stability (catastrophic cancellation, accumulation in float32, summation order, mean of huge numbers, log of tiny numbers) that matters only for long runs or large offsets; ties and stability in sorting / argmin / unique / digitize (equal distances, equal times, equal energies, duplicate rows); NaN / inf / negative zero propagation through min, max, sort, comparisons; integer division, floor vs truncation for negative values, modulo of negative numbers; handling of an empty selection, an empty table, zero counts, all-equal data; sampling or striding introduced as a speed-up (every k-th frame, early exit of a search, a cut-off on the number of neighbours or images) that is exact for small cases only; an exception or warning swallowed by a broad except so that a fallback result is returned silently; keyword arguments that are accepted but not forwarded by a wrapper, or forwarded under the wrong name; mutable objects (lists, dicts, DataFrames, Structures) stored by reference and changed later by the caller or by the library.'
SUGGEST[8] = 'a pandas pitfall (groupby silently dropping NaN keys or re-sorting, integer columns upcast to float when a NaN appears, merge / join duplicating or dropping rows, chained assignment on a copy, index vs position after filtering, sort that is not stable); a numpy pitfall (advanced indexing with repeated indices, boolean mask of the wrong length broadcast silently, integer division or integer overflow in an intermediate, np.unique / np.sort changing the order the caller relies on, in-place operation casting to the dtype of the left operand, np.round half-to-even, np.digitize / searchsorted side); a networkx pitfall (missing edge attribute treated as weight 1, DiGraph vs Graph, attribute name typos that fall back to defaults, node relabelling, multi-source searches); a pymatgen pitfall (Lattice row vs column convention, get_all_distances vs get_distance_and_image, Structure site ordering after sort / from_spacegroup / merge_sites, coords_are_cartesian, to_unit_cell, species strings with oxidation states); the returned object itself (a list where an array is promised, a view where a copy is promised, lost units, a DataFrame with other column names / dtypes / index, an attribute computed at construction that goes stale); the FIRST or LAST frame, event, jump, part or bin treated specially; time expressed in frames in one place and in seconds / femtoseconds in another; a default value changed in only one of two entry points; results that depend on the order in which the user passes species, sites or files; anything that works for 2 or 3 items but not for 1, or for many.'
SUGGEST[9] = 'a helper shared by two public functions whose semantics is changed for the benefit of one caller; a generator / iterator / zip / map that is consumed once and silently empty or shorter afterwards; a physics-level mix-up that keeps shapes and types intact (origin vs destination, site index vs atom index vs label index, the species of the sites vs the diffusing species, fractional vs Cartesian in one branch only, radius vs diameter, angle in degrees vs radians, k_B in eV vs J, per-atom vs per-formula-unit); an intermediate kept in lower precision or rounded for display and then reused; a search window, image range or neighbour shell that is sufficient for large cells but not for cells smaller than twice the cut-off (or for cut-offs beyond half the cell); cumulative quantities restarted or double counted at a boundary (part edges, chunked processing, extend); a validity check that silently clips, clamps, sorts or de-duplicates the user input instead of honouring it; a condition written for the common sign / direction only (positive steps, increasing times, start < stop, first site index lower than the second); behaviour that depends on whether an optional argument is passed positionally, by keyword, as None or omitted; an object that remembers the arguments of its FIRST use (lazy initialisation) when it is reused with other arguments; equality / hashing / ordering of library objects (Species, Lattice, PeriodicSite, numpy scalars vs Python numbers) used as dict keys or in sets.'
SUGGEST[10] = 'this is the tenth round, so the obvious input classes are all covered: think about what a team that GENERATES inputs would still not generate or not compare. For instance: a result that is right in value but wrong in its ordering, index, column labels, dtype or shape convention and is consumed by the next stage of the pipeline; a quantity that is right for each atom / site / part separately but wrong once aggregated in the library (or the reverse); an input that is legal but unusual in its FORM (a pymatgen Structure with site properties, partial occupancies forbidden elsewhere, labels that are None or numeric, a Lattice given with pbc flags, a trajectory whose species list contains DummySpecies or isotopes, a site structure with duplicate or nearly coincident sites, sites of several species); a method called on the result of another method in an order nobody tests (metrics of a filtered split part of a drift-corrected trajectory; jumps of a part of a part; the volume of a centre-of-mass trajectory); two features that each pass their own checks but interact (inner fraction with per-label radii with the automatic radius fallback; supercell with a rotated lattice; percolation with diagonal=False; equal_parts with extend); a change that only matters the SECOND time a code path runs in one process, or only the first; a change whose effect is below 1e-9 relative for typical data but grows with system size, run length or magnitude of the coordinates.'
SUGGEST[11] = 'look at the PUBLIC SURFACE around the anchored code that is used less often: convenience methods and properties that forward to the main routine (Trajectory.transitions_between_sites / to_volume / metrics / radial_distribution_between_species, Transitions.jumps / radial_distribution / split, Jumps.collective / rates / activation_energies / jump_diffusivity / n_solo_jumps / solo_fraction / jumps_counter / site_pairs, Volume.to_structure / find_peaks / site_to_voxel / voxel_to_cart_coords / normalized / probability / from_volumetric_data, FreeEnergyVolume.optimal_path / optimal_n_paths / optimal_percolating_path, Pathway.total_energy / total_length / start_site / stop_site / cartesian / fractional views, ShapeAnalyzer.from_structure / shift_sites / optimize_sites / to_structure and the ShapeData views, Orientations.normalize / vectors_spherical / autocorrelation, TrajectoryMetricsStd.*), optional arguments that are rarely passed (ionic_step_skip, ionic_step_offset, constant_lattice, type_mapping, atom_style, equal_parts, n_parts, dimensions, z_ion, percolate, peaks, diagonal, max_energy_threshold, supercell, radius, max_steps, max_dist, minimal_residence, conversion_method, site_inner_fraction), and helpers shared by several features (utils.py: ffill, bfill, integer_remap, meanfreq, fft_autocorrelation, cartesian_to_spherical; caching.py). A refactoring that moves code between an entry point and its helper, swaps the order of two optional arguments, changes a default in only one signature, or makes a property compute something slightly different from the method it mirrors is the kind of change wanted. Also welcome: numpy vectorisations or pandas rewrites of an explicit loop that agree with the loop except for a special row / column / group.'
SUGGEST[12] = 'this time weigh REALISM highest: imagine the pull requests this project is actually likely to receive in the next year and what could go subtly wrong in them - porting a loop to numpy or numba-style code, replacing pymatgen calls by MDAnalysis / scipy equivalents (or the reverse) with slightly different conventions, supporting a new input (NPT / variable cell, several diffusing species, sites of several kinds, a start / stop / stride on frames), adding type coercions (np.asarray, astype, float(...)) at API boundaries, bumping a dependency whose default changed (pandas groupby / sort, numpy copy semantics, networkx weight handling, scipy fft normalisation), adding progress bars / logging / warnings that touch the data, deduplicating two nearly identical code paths, fixing a reported bug for one input class in a way that shifts behaviour for another, caching for speed, parallelising over atoms or frames with chunking. The change should look like an improvement in review, keep every docstring true at first sight, and break the property only for an input class that a reviewer would not think of.'
NOTES = {
    'C18': 'Note: fft_autocorrelation is already known to deviate from the definition for lags > 0 (inverse FFT length) and symmetrize(sym_ops=<single 2-D matrix>) is known to mishandle a single matrix; do not rely on those.',
    'C20': 'Note: Jumps.collective() is already known to keep its Jumps alive through the cached Collective; do not rely on that.',
    'C16': 'Hint: the loaders need input files; small synthetic LAMMPS files (a data file with an orthogonal box, atom_style atomic, plus an xyz dump with element names) are parsed by Trajectory.from_lammps.',
    'C10': 'Note: it is already known that free_energy_graph lists only 4 of the 8 corner moves and that method="minmax-energy" returns the plain Dijkstra path; do not rely on those.',
    'C05': 'Note: it is already known that Transitions.matrix() folds events from/to "no site" (-1) into the last row/column; do not rely on that.',
    'C19': 'Note: it is already known that split(n_parts) with n_parts >= number of frames raises IndexError; do not rely on that.',
    'C02': 'Note: it is already known that the third-party neighbour search (MDAnalysis PeriodicKDTree) loses a few pairs in strongly skewed cells; do not rely on that.',
}
os.makedirs(os.path.join(root, 'prompts'), exist_ok=True)
for p in [json.loads(l) for l in open('/verif/properties.jsonl')]:
    pid = p['id']
    wt = f'{root}/{pid}'
    tk = taken(pid)
    txt = T.format(wt=wt, pid=pid, title=p['title'], statement=p['statement'], quant=p['quantifier']['text'], why=p['why_tests_cant'], files=', '.join(p['anchors']['files']), taken='\n'.join(f'    {i + 1}. {t}' for i, t in enumerate(tk)), n_taken=len(tk), ordinal=ORD.get(rnd, 'NEW'), suggest=SUGGEST.get(rnd, SUGGEST[6]))
    if pid in NOTES:
        txt += '\n' + NOTES[pid]
    open(os.path.join(root, 'prompts', f'{pid}.txt'), 'w').write(txt)
print('ok', root)
