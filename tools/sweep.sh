#!/bin/bash
# usage: sweep.sh <tier> <seed...>   runs every check for the given seeds; prints one line per run
tier=$1; shift
cd "$(dirname "$0")/.."
for seed in "$@"; do
  for p in ${PROPS:-C01 C02 C03 C04 C05 C06 C07 C08 C09 C10 C11 C12 C13 C14 C15 C16 C17 C18 C19 C20}; do
    out=$(VERIF_SEED=$seed /venv/bin/python -m gv $p --tier $tier --no-evidence 2>&1)
    rc=$?
    echo "seed=$seed rc=$rc $(echo "$out" | grep '^\[gv\]' | cut -c1-220)"
    if [ $rc -ne 0 ]; then echo "$out" | grep -v '^\[gv\]' | grep -v KNOWN-FINDING | head -6 | cut -c1-600; fi
  done
done
