#!/venv/bin/python
"""Seeded-mutation self-test: apply a small property-breaking edit to a scratch copy of
/repo/src, confirm the repository's own tests still pass on it (optional), and run the checks of
the affected properties against the copy (GV_SRC).  The copy lives under a temp dir outside
/repo and /verif and is removed afterwards.

usage: selftest.py [--tests] [--tier quick] [--only ID[,ID]] [--jobs N]
"""
import argparse
import json
import os
import shutil
import subprocess
import sys
import tempfile
from concurrent.futures import ThreadPoolExecutor

VERIF = os.path.dirname(os.path.dirname(os.path.abspath(__file__)))
sys.path.insert(0, VERIF)
from selftest.mutants import MUTANTS  # noqa: E402


def run_one(mut, args):
    tmp = tempfile.mkdtemp(prefix='gvmut-')
    try:
        shutil.copytree('/repo/src', os.path.join(tmp, 'src'))
        for path, old, new in mut['edits']:
            fp = os.path.join(tmp, 'src', 'gemdat', path)
            s = open(fp).read()
            if s.count(old) != 1:
                return mut['id'], 'STALE', f'pattern occurs {s.count(old)}x in {path}', {}
            open(fp, 'w').write(s.replace(old, new))
        tests_ok = None
        if args.tests:
            shutil.copytree('/repo/tests', os.path.join(tmp, 'tests'), ignore=shutil.ignore_patterns('data'))
            shutil.copy('/repo/pyproject.toml', tmp)
            p = subprocess.run(['/venv/bin/python', os.path.join(VERIF, 'tools', 'baseline_check.py'), tmp], capture_output=True, text=True)
            tests_ok = p.returncode == 0
        res = {}
        for pid in mut['props']:
            env = dict(os.environ, GV_SRC=os.path.join(tmp, 'src'), GV_BUDGET_S=str(args.budget))
            p = subprocess.run(['/venv/bin/python', '-m', 'gv', pid, '--tier', args.tier, '--no-evidence', '--shards', str(args.shards)], cwd=VERIF, env=env, capture_output=True, text=True)
            detail = [ln for ln in p.stdout.splitlines() if ln.startswith('  detail')][:1]
            res[pid] = (p.returncode, detail[0][:200] if detail else p.stdout[-200:] if p.returncode != 1 else '')
        caught = any(rc == 1 for rc, _ in res.values())
        return mut['id'], 'CAUGHT' if caught else 'MISSED', f'tests_pass={tests_ok}', res
    finally:
        shutil.rmtree(tmp, ignore_errors=True)


def main():
    ap = argparse.ArgumentParser()
    ap.add_argument('--tests', action='store_true')
    ap.add_argument('--tier', default='quick')
    ap.add_argument('--only', default='')
    ap.add_argument('--prop', default='')
    ap.add_argument('--jobs', type=int, default=4)
    ap.add_argument('--shards', type=int, default=4)
    ap.add_argument('--budget', type=float, default=120)
    args = ap.parse_args()
    muts = MUTANTS
    if args.only:
        want = set(args.only.split(','))
        muts = [m for m in muts if m['id'] in want]
    if args.prop:
        want = set(args.prop.split(','))
        muts = [m for m in muts if want & set(m['props'])]
    bad = 0
    with ThreadPoolExecutor(args.jobs) as ex:
        for mid, verdict, note, res in ex.map(lambda m: run_one(m, args), muts):
            print(f'{verdict:7s} {mid:40s} {note} ' + ' '.join(f'{k}:rc={v[0]}' for k, v in res.items()))
            for k, v in res.items():
                if v[1]:
                    print(f'          {k}: {v[1]}')
            sys.stdout.flush()
            bad += verdict != 'CAUGHT'
    print(f'{len(muts) - bad}/{len(muts)} mutants caught')
    return 1 if bad else 0


if __name__ == '__main__':
    sys.exit(main())
