#!/bin/bash
# full regression of the machinery: own mutants, independent seeds, quick sweep over seeds
cd "$(dirname "$0")/.."
echo "== own mutants"; /venv/bin/python tools/selftest.py --jobs 4 --shards 4 --budget 150 2>&1 | grep -v "^          C" 
echo "== independent seeds"
ls -d seeded/*/ | xargs -P 4 -I{} bash -c 'd={}; n=$(basename $d); pid=$(echo ${n:0:3} | tr a-z A-Z); /venv/bin/python tools/seeded_eval.py $pid $PWD/$d ${SEED_FLAGS:-} --seeds ${SEED_SEEDS:-0,1,2} 2>&1 | grep "^RESULT" | sed "s/^/$n /"'
echo "== quick sweep"; tools/sweep.sh quick "$@"
