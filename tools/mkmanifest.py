#!/venv/bin/python
"""Regenerate /verif/MANIFEST.json from the table below (one entry per claimed property).

A property is claimed only if it appears in CLAIMED; every other id of properties.jsonl is listed
under not_applicable with its reason.
"""
import json
import os

VERIF = os.path.dirname(os.path.dirname(os.path.abspath(__file__)))
PY = '/venv/bin/python'

TRUST = (
    'Trusted: CPython, numpy arithmetic, pymatgen Lattice.matrix / Structure containers, pickle. '
    'The oracle shares no code with GEMDAT (own image-enumeration geometry, loop models). '
    'Holds on the executions observed, not a proof.'
)

TEXT = {
    'C01': ('runtime contract on Trajectory.positions + ground-truth reference model on displacements / cumulative displacements / distances, metamorphic integer-shift twin, hostile face-adjacent coordinates',
            'Range contract [0,1) is asserted on every call of the real Trajectory.positions getter; displacements, cumulative displacements and distances are compared with the unwrapped ground-truth walk the harness generated; every case is re-run with per-coordinate integer lattice shifts. Sampled (hundreds to tens of thousands of walks over all lattice classes with injected face values and near-half-cell steps), not exhaustive.'),
    'C02': ('reference-model monitor on transitions_between_sites(...).states/.inner_states with brute-force lattice-image enumeration; K1 classifier by direct MDAnalysis call',
            'Every atom-frame of margin-controlled and random systems in all lattice classes (rotated, sites on faces, never-visited label members, float/dict/automatic radius, inner fractions) is compared with an independent image-enumeration oracle; hook monitors record the radius actually used. Sampled; third-party misses (K1) are tolerated only when a direct MDAnalysis call reproduces them.'),
    'C03': ('runtime reference-model monitor on Transitions.events/states_prev/states_next over exhaustive short histories + random long histories through the real pipeline',
            'Every (site, inner-site) history of one atom up to length 5 (quick) / 6 (thorough) over 3 sites is realised geometrically and run through the real pipeline; the monitor compares the event table, its replay and the previous/next views with a loop model. Random multi-atom long histories widen it. Exhaustive inside the bound, sampled outside.'),
    'C04': ('reference-model monitor on Jumps.data via Transitions.jumps(minimal_residence=r): exhaustive bounded histories x residences + random long histories',
            'All site histories up to length 7/9 (default settings) and all (site, inner) histories up to length 5/6 (inner fraction 0.5) are pushed through the real pipeline for residences {0,1,2,3,5}; default jumps must equal the visited-site model exactly, stricter settings must be state-consistent subsets, monotone in the residence. Exhaustive inside the bound.'),
    'C05': ('state-based contracts on Transitions.matrix/occupancy/atom_locations and Jumps.matrix/_counter/counter/jump_diffusivity/to_graph/rates, recomputed by loops from the tables the object holds; K2 classifier',
            'Each bookkeeping method of the real objects is re-derived from the event / jump / state tables at call time with explicit loops and image-enumeration distances. Sampled over pipeline systems; the pinned no-site folding of Transitions.matrix (K2) is tolerated only cell-by-cell.'),
    'C06': ('reference-model monitor: O(T^2) time-origin MSD, Cartesian distances and tracer diffusivity from harness ground truth',
            'MSD of every atom and lag, distances from the start and tracer diffusivity (dimensions 1-3) of the real functions are compared with the definition evaluated on the unwrapped ground-truth walk, in all lattice classes with many face crossings. Sampled.'),
    'C07': ('metamorphic monitor: full pipeline run in 5 representations (rotation, voxel translation, atom permutation, site permutation) and compared up to relabelling; K1 classifier',
            'States, events, jumps, matrices, diffusivities, occupancies, collective counts, RDFs, metrics, density and free-energy grids and path costs of two real runs on the same physical system must agree up to the relabelling. Sampled (about 200 / 3000 systems x 4 transformations).'),
    'C11': ('reference-model monitor: brute-force pair histograms (image enumeration) per species pair and per (state, symbol) with loop fill-model of the states',
            'Every bin of both public RDF functions is compared with explicit pair loops; the per-state partition is decided by re-deriving the state of every (frame, atom) from the reported site states. Sampled over multi-label systems.'),
    'C12': ('reference-model monitor: O(n^2) pair enumeration over pipeline jumps and injected arbitrary jump tables (long-transit, simultaneous, same-atom), windows and cut-offs',
            'The set of collective pairs, coll_jumps, solo/collective counts and the default window of the real Collective / Jumps.collective are compared with an exhaustive pair enumeration using independent distances, for pipeline jump tables and for arbitrary tables injected through the public conversion_method parameter. Sampled.'),
    'C13': ('ground-truth reference model of drift correction + metamorphic injected rigid drift, all argument forms and species object kinds',
            'drift() and apply_drift_correction() are compared with a ground-truth model (mean reference step removed, first frame kept); idempotence, metadata preservation, fixed/floating equivalence and invariance to an injected rigid translation are asserted on every case. Sampled.'),
    'C14': ('formula oracles with CODATA constants on ground truth + metamorphic cell / time scaling between two real runs',
            'All TrajectoryMetrics / TrajectoryMetricsStd outputs are compared with their defining formulas on harness ground truth and with the k^2, k, 1/k^3, 1/s scaling relations between real runs. Sampled.'),
    'C15': ('history checker: random API call sequences on a pool of live trajectories vs a sequential numpy model, every live object probed after every step',
            'After each of 10-40 random operations (mode switches, filters, slices, split, extend, analysis queries) every live trajectory is probed on a deep copy and compared with the model; catches call-order dependent corruption. Sampled (hundreds to thousands of histories).'),
    'C19': ('offline checker over split outputs: every part event mapped back to exactly one original event with one offset per part; part jumps subset of whole; K7 classifier',
            'For all n_parts up to the number of events on small systems and sampled values on large ones, states must concatenate, events must partition with consistent non-negative re-basing, parts must be chronological and part jumps must be jumps of the whole; Trajectory.split parts must be ordered contiguous ranges. Sampled systems, exhaustive n_parts on small ones.'),
    'C08': ('reference-model monitor on trajectory_to_volume (np.add.at histogram on floor(x n), knife-edge band except on exact power-of-two grids) + exhaustive voxel round trip for every index of every grid size',
            'Sample conservation, voxel placement and voxel-size bounds of the real density volume are compared with an independent histogram over lattices, resolutions (incl. integer ratios) and hostile / edge coordinates; the voxel->fraction->voxel round trip is enumerated exhaustively for all grid sizes 1..3000 (quick) / 20000 (thorough) on each axis.'),
    'C09': ('formula oracle on Volume.get_free_energy and free_energy_graph nodes over random densities / temperatures / thresholds',
            'Finite values, F = -kT ln p on visited voxels, normalisation, monotonicity over all voxel pairs, prohibitive energy of unvisited voxels and their exclusion from graphs are asserted on random integer / float / heavy-tailed / single-voxel densities and volumes from real trajectories. Sampled.'),
    'C10': ('reference-model monitor: own heap Dijkstra / union-find bottleneck over the periodic grid vs optimal_path (5 methods, both neighbourhoods) and optimal_percolating_path (7 direction sets); K3/K4 classifiers',
            'Every returned path is checked for endpoints, neighbour steps, thresholds, reported energies and wrapped/fractional coordinates, and its cost is compared with an independent optimum (all start/stop pairs on small grids, sampled on larger ones). Deviations are tolerated only if they are exactly the recorded mechanisms K3 (22-move neighbourhood) or K4 (dead minmax branch).'),
    'C17': ('reference-model monitor: per symmetry operation image-enumeration distances and inverse-operation images vs ShapeAnalyzer.analyze_positions / analyze_trajectory (SpaceGroup and spglib operations, supercells)',
            'Counts, distances and full coordinates of the collected points are compared with an independent per-operation enumeration over space groups of all crystal systems with compatible random lattices, sites near faces and supercell folding. Sampled (48 groups quick, all 230 thorough).'),
    'C18': ('ground-truth reference model for bond vectors (image enumeration), group orbits, matrix transform, spherical inverse and O(T^2) autocorrelation; K5/K8 classifiers',
            'Orientation vectors of rotating, face-crossing tetrahedral clusters are compared with ground truth; normalize / symmetrize (20 point groups and explicit stacks) / transform / spherical round trip are asserted; the autocorrelation is compared with its definition and tolerated only when it equals the closed-form aliasing model of K5.'),
    'C20': ('history monitor: random create/call/drop/gc/address-reuse interleavings on objects from different data; cached value vs method.__wrapped__ and pristine twin; weakref liveness; lru cache_info via closure; K6 classifier',
            'Every cached return value is compared with an uncached recomputation and with a twin built from the same data; objects recreated at the address of destroyed ones and cache floods beyond maxsize are driven explicitly; liveness after the last reference is observed with weakref+gc. K6 survivors are tolerated only when held solely through Collective.jumps.'),
}

RETAINED = {'C01', 'C02', 'C03', 'C05', 'C06', 'C07', 'C08', 'C09', 'C10', 'C11', 'C12', 'C13', 'C14', 'C17', 'C19'}
RETAIN_T = '; result-retention monitor (what a call returned is re-read after the following calls, and scribbled on when dropped)'
RETAIN_X = ' Results handed out by earlier calls are kept and compared again after the calls of the following case (process-wide buffers, aliasing) and examined for buffers shared between arrays of different role; the same data is presented in varying memory layouts, storage modes, atom orders and species / label spellings.'
GEN_X = ' Every third worker process runs under python -O and every worker under its own string hash seed (interpreter configuration is part of the workload).'
CLAIMED = {
    pid: dict(level='exploration', technique=t + (RETAIN_T if pid in RETAINED else ''), text=x + (RETAIN_X if pid in RETAINED else '') + GEN_X, design=f'DESIGN.md §2 {pid}')
    for pid, (t, x) in TEXT.items()
}
CLAIMED['C16'] = dict(
    level='fault_enumeration',
    technique='fault enumeration: every byte-prefix of the cache file (= every crash point of the non-atomic write), garbage / bit-flip / unimportable pickles, damage-recover cycles, real mid-write crashes; audit-hook open() log as monitor; equality with a fresh parse as oracle',
    text='For synthetic but valid vasprun / LAMMPS / GROMACS inputs the cache file is damaged in every way an interrupted write can leave it (every prefix in the thorough tier, every 5th plus both ends in the quick tier) and in other unreadable ways; after each fault the real loader must return the fresh-parse trajectory, leave a complete cache and, per the audit log, have read the cache, re-read the sources and rewritten the cache. Default cache names are checked to separate result-changing options. Exhaustive over crash points of the generated files, sampled over configurations.',
    design='DESIGN.md §2 C16',
)

NOT_YET = 'check under construction; will be claimed once its monitor is built and validated against seeded mutants'


def main():
    props = [json.loads(l)['id'] for l in open(os.path.join(VERIF, 'properties.jsonl'))]
    checks = []
    for pid in props:
        if pid not in CLAIMED:
            continue
        c = CLAIMED[pid]
        checks.append(
            {
                'property_id': pid,
                'quick_cmd': f'{PY} -m gv {pid} --tier quick',
                'thorough_cmd': f'{PY} -m gv {pid} --tier thorough',
                'evidence_file': f'/verif/evidence/{pid}.json',
                'replay_cmd_template': f'{PY} -m gv {pid} --replay {{path}}',
                'engine': 'gv',
                'level_claimed': {'category': c['level'], 'text': c['text'], 'design_ref': c['design']},
                'level_note': c.get('note', TRUST),
                'technique': c['technique'],
            }
        )
    man = {
        'version': 1,
        'setup_cmd': f'{PY} -c "import sys; sys.path.insert(0, \'/verif\'); import gv.core, gv.geom, gv.gen, gv.models, gv.monitor, gv.retain; print(\'gv ok\')"',
        'hooks': {
            'guard': 'GEMDAT_REPOS_GEMDAT_VERIF',
            'enable': 'no source hooks exist: /verif/gv/monitor.py wraps the real gemdat callables at run time in a fresh interpreter that imports /repo/src (the guard variable is exported for completeness; no repository code reads it)',
            'baseline_off_cmd': 'cd /repo && /venv/bin/python -m pytest -ra -q -p no:cacheprovider --timeout=900 --continue-on-collection-errors',
            'source_commits': [],
            'add_only': True,
        },
        'engines': [
            {
                'name': 'gv',
                'path': '/verif/gv',
                'serves_properties': [c['property_id'] for c in checks],
                'kind_free_text': 'runtime monitoring: generated / exhaustive / fault-injected workloads drive the real GEMDAT code in fresh interpreters; call/return monitors and independent reference-model oracles decide; evidence reports what the monitors observed',
            }
        ],
        'checks': checks,
        'not_applicable': [{'property_id': p, 'reason': NOT_YET} for p in props if p not in CLAIMED],
        'notes': 'Exit codes: 0 held on everything explored (KNOWN-FINDING lines allowed), 1 VIOLATION, 2 INCONCLUSIVE (monitor not reached / shard died). VERIF_SEED selects the workload; GV_SRC (self-test only) points the same checks at a mutated scratch copy.',
    }
    with open(os.path.join(VERIF, 'MANIFEST.json'), 'w') as f:
        json.dump(man, f, indent=1)
    print(f'claimed {len(checks)} / {len(props)}')


if __name__ == '__main__':
    main()
