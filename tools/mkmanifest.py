#!/venv/bin/python
"""Regenerate /verif/MANIFEST.json from the table below (one entry per claimed property).

A property is claimed only if it appears in CLAIMED; every other id of properties.jsonl is listed
under not_applicable with its reason.
"""
import json
import os

VERIF = os.path.dirname(os.path.dirname(os.path.abspath(__file__)))
PY = '/venv/bin/python'

TRUST = (
    'Trusted: CPython, numpy arithmetic, pymatgen Lattice.matrix / Structure containers, pickle. '
    'The oracle shares no code with GEMDAT (own image-enumeration geometry, loop models). '
    'Holds on the executions observed, not a proof.'
)

CLAIMED = {
    'C03': dict(
        level='exploration',
        technique='runtime reference-model monitor on Transitions.events/states_prev/states_next over exhaustive short histories + random long histories through the real pipeline',
        text='Every (site, inner-site) history of one atom up to length 5 (quick) / 6 (thorough) over 3 sites is realised geometrically and run through the real pipeline; the monitor compares the event table, its replay and the previous/next views with a loop model. Random multi-atom long histories widen it. Exhaustive inside the bound, sampled outside.',
        design='DESIGN.md §2 C03',
    ),
}

NOT_YET = 'check under construction; will be claimed once its monitor is built and validated against seeded mutants'


def main():
    props = [json.loads(l)['id'] for l in open(os.path.join(VERIF, 'properties.jsonl'))]
    checks = []
    for pid in props:
        if pid not in CLAIMED:
            continue
        c = CLAIMED[pid]
        checks.append(
            {
                'property_id': pid,
                'quick_cmd': f'{PY} -m gv {pid} --tier quick',
                'thorough_cmd': f'{PY} -m gv {pid} --tier thorough',
                'evidence_file': f'/verif/evidence/{pid}.json',
                'replay_cmd_template': f'{PY} -m gv {pid} --replay {{path}}',
                'engine': 'gv',
                'level_claimed': {'category': c['level'], 'text': c['text'], 'design_ref': c['design']},
                'level_note': c.get('note', TRUST),
                'technique': c['technique'],
            }
        )
    man = {
        'version': 1,
        'setup_cmd': f'{PY} -c "import sys; sys.path.insert(0, \'/verif\'); import gv.core, gv.geom, gv.gen, gv.models, gv.monitor; print(\'gv ok\')"',
        'hooks': {
            'guard': 'GEMDAT_REPOS_GEMDAT_VERIF',
            'enable': 'no source hooks exist: /verif/gv/monitor.py wraps the real gemdat callables at run time in a fresh interpreter that imports /repo/src (the guard variable is exported for completeness; no repository code reads it)',
            'baseline_off_cmd': 'cd /repo && /venv/bin/python -m pytest -ra -q -p no:cacheprovider --timeout=900 --continue-on-collection-errors',
            'source_commits': [],
            'add_only': True,
        },
        'engines': [
            {
                'name': 'gv',
                'path': '/verif/gv',
                'serves_properties': [c['property_id'] for c in checks],
                'kind_free_text': 'runtime monitoring: generated / exhaustive / fault-injected workloads drive the real GEMDAT code in fresh interpreters; call/return monitors and independent reference-model oracles decide; evidence reports what the monitors observed',
            }
        ],
        'checks': checks,
        'not_applicable': [{'property_id': p, 'reason': NOT_YET} for p in props if p not in CLAIMED],
        'notes': 'Exit codes: 0 held on everything explored (KNOWN-FINDING lines allowed), 1 VIOLATION, 2 INCONCLUSIVE (monitor not reached / shard died). VERIF_SEED selects the workload; GV_SRC (self-test only) points the same checks at a mutated scratch copy.',
    }
    with open(os.path.join(VERIF, 'MANIFEST.json'), 'w') as f:
        json.dump(man, f, indent=1)
    print(f'claimed {len(checks)} / {len(props)}')


if __name__ == '__main__':
    main()
